------------------------------- MODULE OrPipe -------------------------------
(* C24.  The pollable descriptor of a Channel after fileno():                    *)
(*   paramiko/pipe.py   PosixPipe.set / clear / set_forever, OrPipe.set / clear  *)
(*   paramiko/buffered_pipe.py  feed / read / close calling event.set()/clear()  *)
(*   paramiko/channel.py  _handle_eof (closes both buffers, then set_forever)    *)
(* ONE LABEL PER STATEMENT of pipe.py (its methods take no lock in the pinned    *)
(* tree); BufferedPipe operations are critical sections under the per-buffer     *)
(* lock, inside which they call into the OrPipe.  FixLocks = TRUE is the         *)
(* repaired design: OrPipe.set/clear run under a lock shared by the two halves   *)
(* and PosixPipe.set/clear/set_forever under the pipe's own lock.                *)
EXTENDS Naturals, Sequences, TLC

CONSTANTS InitOut, InitErr,   \* bytes buffered in stdout / stderr when fileno() is called
          InitEof,            \* TRUE: EOF was received BEFORE fileno() (buffers closed, set_forever never called)
          MaxOps,             \* operations per thread
          FixLocks,
          ClearWhenClosed     \* mutation: read()/empty() clear the event although the buffer is closed

Bufs == {1, 2}                \* 1 = stdout (in_buffer, OrPipe p1), 2 = stderr (in_stderr_buffer, p2)
Partner(b) == 3 - b
Free == "free"

(* --algorithm OrPipe {
  variables
    buf = <<InitOut, InitErr>>,          \* bytes buffered
    bclosed = <<InitEof, InitEof>>,      \* BufferedPipe._closed
    block = <<Free, Free>>,              \* BufferedPipe._lock owner
    oset = <<InitOut > 0 \/ InitEof, InitErr > 0 \/ InitEof>>, \* OrPipe._set   (set_event(): set iff data or closed)
    pset = (InitOut > 0) \/ (InitErr > 0) \/ InitEof, \* PosixPipe._set
    bytes = IF (InitOut > 0) \/ (InitErr > 0) \/ InitEof THEN 1 ELSE 0,   \* bytes sitting in the OS pipe
    forever = FALSE,
    eof = InitEof,
    orlock = Free, plock = Free,
    nops = [t \in {"T", "R1", "R2"} |-> 0],
    stuck = FALSE;                       \* a thread sits in os.read() on an empty pipe

  define {
    Readable == bytes > 0
    ShouldBeReadable == buf[1] > 0 \/ buf[2] > 0 \/ eof
  }

  \* ---- PosixPipe.set ----
  procedure pipe_set() {
   ps0: if (FixLocks) { await plock = Free; plock := self; };
   ps1: if (pset) { goto ps4; };                   \* if self._set or self._closed: return
   ps2: pset := TRUE;                              \* self._set = True
   ps3: bytes := bytes + 1;                        \* os.write(self._wfd, b"*")
   ps4: if (FixLocks) { plock := Free; };
   ps5: return;
  }
  \* ---- PosixPipe.clear ----
  procedure pipe_clear() {
   pc0: if (FixLocks) { await plock = Free; plock := self; };
   pc1: if (~pset \/ forever) { goto pc4; };       \* if not self._set or self._forever: return
   pc2: if (bytes = 0) { stuck := TRUE; pcw: await FALSE; } else { bytes := bytes - 1; };   \* os.read(self._rfd, 1)
   pc3: pset := FALSE;                             \* self._set = False
   pc4: if (FixLocks) { plock := Free; };
   pc5: return;
  }
  \* ---- OrPipe.set (half b) ----
  procedure or_set(sb) {
   os0: if (FixLocks) { await orlock = Free; orlock := self; };
   os1: oset[sb] := TRUE;                           \* self._set = True
   os2: if (~oset[Partner(sb)]) { call pipe_set(); };   \* if not self._partner._set: self._pipe.set()
   os3: if (FixLocks) { orlock := Free; };
   os4: return;
  }
  \* ---- OrPipe.clear (half b) ----
  procedure or_clear(b) {
   oc0: if (FixLocks) { await orlock = Free; orlock := self; };
   oc1: oset[b] := FALSE;                          \* self._set = False
   oc2: if (~oset[Partner(b)]) { call pipe_clear(); };
   oc3: if (FixLocks) { orlock := Free; };
   oc4: return;
  }
  \* ---- BufferedPipe.feed(data) on buffer fb ----
  procedure feed(fb) {
   f1: await block[fb] = Free; block[fb] := self;
   f2: call or_set(fb);                            \* self._event.set()
   f3: buf[fb] := buf[fb] + 1;                     \* self._buffer_frombytes(...)
   f4: block[fb] := Free;
   f5: return;
  }
  \* ---- BufferedPipe.read() taking everything (non-blocking use: recv after select / recv_ready) ----
  procedure readall(rb) {
   r1: await block[rb] = Free; block[rb] := self;
   r2: if (buf[rb] = 0) { goto r5; };              \* nothing there (closed -> b"", else timeout)
   r3: buf[rb] := 0;
   r4: if (~bclosed[rb] \/ ClearWhenClosed) { call or_clear(rb); };   \* if event is not None and not closed: event.clear()
   r5: block[rb] := Free;
   r6: return;
  }
  \* ---- BufferedPipe.close() ----
  procedure bclose(cb) {
   c1: await block[cb] = Free; block[cb] := self;
   c2: bclosed[cb] := TRUE;
   c3: call or_set(cb);                            \* self._event.set()
   c4: block[cb] := Free;
   c5: return;
  }
  \* ---- PosixPipe.set_forever ----
  procedure set_forever() {
   sf0: if (FixLocks) { await plock = Free; plock := self; };
   sf1: forever := TRUE;
   sf2: if (~pset) { pset := TRUE; bytes := bytes + 1; };   \* self.set() (inlined: same statements, lock already held when fixed)
   sf3: if (FixLocks) { plock := Free; };
   sf4: return;
  }

  \* transport thread: feeds either stream, or delivers EOF (Channel._handle_eof)
  process (Transport = "T") {
   t0: while (nops["T"] < MaxOps /\ ~eof) {
         nops["T"] := nops["T"] + 1;
         either { call feed(1); } or { call feed(2); }
         or { te1: call bclose(1); te2: call bclose(2); te3: call set_forever(); te4: eof := TRUE; };
       }
  }
  process (Reader \in {"R1", "R2"}) {
   q0: while (nops[self] < MaxOps) {
         nops[self] := nops[self] + 1;
         call readall(IF self = "R1" THEN 1 ELSE 2);
       }
  }
} *)
\* BEGIN TRANSLATION (chksum(pcal) = "be155cf6" /\ chksum(tla) = "fab2dfcf")
CONSTANT defaultInitValue
VARIABLES pc, buf, bclosed, block, oset, pset, bytes, forever, eof, orlock, 
          plock, nops, stuck, stack

(* define statement *)
Readable == bytes > 0
ShouldBeReadable == buf[1] > 0 \/ buf[2] > 0 \/ eof

VARIABLES sb, b, fb, rb, cb

vars == << pc, buf, bclosed, block, oset, pset, bytes, forever, eof, orlock, 
           plock, nops, stuck, stack, sb, b, fb, rb, cb >>

ProcSet == {"T"} \cup ({"R1", "R2"})

Init == (* Global variables *)
        /\ buf = <<InitOut, InitErr>>
        /\ bclosed = <<InitEof, InitEof>>
        /\ block = <<Free, Free>>
        /\ oset = <<InitOut > 0 \/ InitEof, InitErr > 0 \/ InitEof>>
        /\ pset = ((InitOut > 0) \/ (InitErr > 0) \/ InitEof)
        /\ bytes = (IF (InitOut > 0) \/ (InitErr > 0) \/ InitEof THEN 1 ELSE 0)
        /\ forever = FALSE
        /\ eof = InitEof
        /\ orlock = Free
        /\ plock = Free
        /\ nops = [t \in {"T", "R1", "R2"} |-> 0]
        /\ stuck = FALSE
        (* Procedure or_set *)
        /\ sb = [ self \in ProcSet |-> defaultInitValue]
        (* Procedure or_clear *)
        /\ b = [ self \in ProcSet |-> defaultInitValue]
        (* Procedure feed *)
        /\ fb = [ self \in ProcSet |-> defaultInitValue]
        (* Procedure readall *)
        /\ rb = [ self \in ProcSet |-> defaultInitValue]
        (* Procedure bclose *)
        /\ cb = [ self \in ProcSet |-> defaultInitValue]
        /\ stack = [self \in ProcSet |-> << >>]
        /\ pc = [self \in ProcSet |-> CASE self = "T" -> "t0"
                                        [] self \in {"R1", "R2"} -> "q0"]

ps0(self) == /\ pc[self] = "ps0"
             /\ IF FixLocks
                   THEN /\ plock = Free
                        /\ plock' = self
                   ELSE /\ TRUE
                        /\ plock' = plock
             /\ pc' = [pc EXCEPT ![self] = "ps1"]
             /\ UNCHANGED << buf, bclosed, block, oset, pset, bytes, forever, 
                             eof, orlock, nops, stuck, stack, sb, b, fb, rb, 
                             cb >>

ps1(self) == /\ pc[self] = "ps1"
             /\ IF pset
                   THEN /\ pc' = [pc EXCEPT ![self] = "ps4"]
                   ELSE /\ pc' = [pc EXCEPT ![self] = "ps2"]
             /\ UNCHANGED << buf, bclosed, block, oset, pset, bytes, forever, 
                             eof, orlock, plock, nops, stuck, stack, sb, b, fb, 
                             rb, cb >>

ps2(self) == /\ pc[self] = "ps2"
             /\ pset' = TRUE
             /\ pc' = [pc EXCEPT ![self] = "ps3"]
             /\ UNCHANGED << buf, bclosed, block, oset, bytes, forever, eof, 
                             orlock, plock, nops, stuck, stack, sb, b, fb, rb, 
                             cb >>

ps3(self) == /\ pc[self] = "ps3"
             /\ bytes' = bytes + 1
             /\ pc' = [pc EXCEPT ![self] = "ps4"]
             /\ UNCHANGED << buf, bclosed, block, oset, pset, forever, eof, 
                             orlock, plock, nops, stuck, stack, sb, b, fb, rb, 
                             cb >>

ps4(self) == /\ pc[self] = "ps4"
             /\ IF FixLocks
                   THEN /\ plock' = Free
                   ELSE /\ TRUE
                        /\ plock' = plock
             /\ pc' = [pc EXCEPT ![self] = "ps5"]
             /\ UNCHANGED << buf, bclosed, block, oset, pset, bytes, forever, 
                             eof, orlock, nops, stuck, stack, sb, b, fb, rb, 
                             cb >>

ps5(self) == /\ pc[self] = "ps5"
             /\ pc' = [pc EXCEPT ![self] = Head(stack[self]).pc]
             /\ stack' = [stack EXCEPT ![self] = Tail(stack[self])]
             /\ UNCHANGED << buf, bclosed, block, oset, pset, bytes, forever, 
                             eof, orlock, plock, nops, stuck, sb, b, fb, rb, 
                             cb >>

pipe_set(self) == ps0(self) \/ ps1(self) \/ ps2(self) \/ ps3(self)
                     \/ ps4(self) \/ ps5(self)

pc0(self) == /\ pc[self] = "pc0"
             /\ IF FixLocks
                   THEN /\ plock = Free
                        /\ plock' = self
                   ELSE /\ TRUE
                        /\ plock' = plock
             /\ pc' = [pc EXCEPT ![self] = "pc1"]
             /\ UNCHANGED << buf, bclosed, block, oset, pset, bytes, forever, 
                             eof, orlock, nops, stuck, stack, sb, b, fb, rb, 
                             cb >>

pc1(self) == /\ pc[self] = "pc1"
             /\ IF ~pset \/ forever
                   THEN /\ pc' = [pc EXCEPT ![self] = "pc4"]
                   ELSE /\ pc' = [pc EXCEPT ![self] = "pc2"]
             /\ UNCHANGED << buf, bclosed, block, oset, pset, bytes, forever, 
                             eof, orlock, plock, nops, stuck, stack, sb, b, fb, 
                             rb, cb >>

pc2(self) == /\ pc[self] = "pc2"
             /\ IF bytes = 0
                   THEN /\ stuck' = TRUE
                        /\ pc' = [pc EXCEPT ![self] = "pcw"]
                        /\ bytes' = bytes
                   ELSE /\ bytes' = bytes - 1
                        /\ pc' = [pc EXCEPT ![self] = "pc3"]
                        /\ stuck' = stuck
             /\ UNCHANGED << buf, bclosed, block, oset, pset, forever, eof, 
                             orlock, plock, nops, stack, sb, b, fb, rb, cb >>

pcw(self) == /\ pc[self] = "pcw"
             /\ FALSE
             /\ pc' = [pc EXCEPT ![self] = "pc3"]
             /\ UNCHANGED << buf, bclosed, block, oset, pset, bytes, forever, 
                             eof, orlock, plock, nops, stuck, stack, sb, b, fb, 
                             rb, cb >>

pc3(self) == /\ pc[self] = "pc3"
             /\ pset' = FALSE
             /\ pc' = [pc EXCEPT ![self] = "pc4"]
             /\ UNCHANGED << buf, bclosed, block, oset, bytes, forever, eof, 
                             orlock, plock, nops, stuck, stack, sb, b, fb, rb, 
                             cb >>

pc4(self) == /\ pc[self] = "pc4"
             /\ IF FixLocks
                   THEN /\ plock' = Free
                   ELSE /\ TRUE
                        /\ plock' = plock
             /\ pc' = [pc EXCEPT ![self] = "pc5"]
             /\ UNCHANGED << buf, bclosed, block, oset, pset, bytes, forever, 
                             eof, orlock, nops, stuck, stack, sb, b, fb, rb, 
                             cb >>

pc5(self) == /\ pc[self] = "pc5"
             /\ pc' = [pc EXCEPT ![self] = Head(stack[self]).pc]
             /\ stack' = [stack EXCEPT ![self] = Tail(stack[self])]
             /\ UNCHANGED << buf, bclosed, block, oset, pset, bytes, forever, 
                             eof, orlock, plock, nops, stuck, sb, b, fb, rb, 
                             cb >>

pipe_clear(self) == pc0(self) \/ pc1(self) \/ pc2(self) \/ pcw(self)
                       \/ pc3(self) \/ pc4(self) \/ pc5(self)

os0(self) == /\ pc[self] = "os0"
             /\ IF FixLocks
                   THEN /\ orlock = Free
                        /\ orlock' = self
                   ELSE /\ TRUE
                        /\ UNCHANGED orlock
             /\ pc' = [pc EXCEPT ![self] = "os1"]
             /\ UNCHANGED << buf, bclosed, block, oset, pset, bytes, forever, 
                             eof, plock, nops, stuck, stack, sb, b, fb, rb, cb >>

os1(self) == /\ pc[self] = "os1"
             /\ oset' = [oset EXCEPT ![sb[self]] = TRUE]
             /\ pc' = [pc EXCEPT ![self] = "os2"]
             /\ UNCHANGED << buf, bclosed, block, pset, bytes, forever, eof, 
                             orlock, plock, nops, stuck, stack, sb, b, fb, rb, 
                             cb >>

os2(self) == /\ pc[self] = "os2"
             /\ IF ~oset[Partner(sb[self])]
                   THEN /\ stack' = [stack EXCEPT ![self] = << [ procedure |->  "pipe_set",
                                                                 pc        |->  "os3" ] >>
                                                             \o stack[self]]
                        /\ pc' = [pc EXCEPT ![self] = "ps0"]
                   ELSE /\ pc' = [pc EXCEPT ![self] = "os3"]
                        /\ stack' = stack
             /\ UNCHANGED << buf, bclosed, block, oset, pset, bytes, forever, 
                             eof, orlock, plock, nops, stuck, sb, b, fb, rb, 
                             cb >>

os3(self) == /\ pc[self] = "os3"
             /\ IF FixLocks
                   THEN /\ orlock' = Free
                   ELSE /\ TRUE
                        /\ UNCHANGED orlock
             /\ pc' = [pc EXCEPT ![self] = "os4"]
             /\ UNCHANGED << buf, bclosed, block, oset, pset, bytes, forever, 
                             eof, plock, nops, stuck, stack, sb, b, fb, rb, cb >>

os4(self) == /\ pc[self] = "os4"
             /\ pc' = [pc EXCEPT ![self] = Head(stack[self]).pc]
             /\ sb' = [sb EXCEPT ![self] = Head(stack[self]).sb]
             /\ stack' = [stack EXCEPT ![self] = Tail(stack[self])]
             /\ UNCHANGED << buf, bclosed, block, oset, pset, bytes, forever, 
                             eof, orlock, plock, nops, stuck, b, fb, rb, cb >>

or_set(self) == os0(self) \/ os1(self) \/ os2(self) \/ os3(self)
                   \/ os4(self)

oc0(self) == /\ pc[self] = "oc0"
             /\ IF FixLocks
                   THEN /\ orlock = Free
                        /\ orlock' = self
                   ELSE /\ TRUE
                        /\ UNCHANGED orlock
             /\ pc' = [pc EXCEPT ![self] = "oc1"]
             /\ UNCHANGED << buf, bclosed, block, oset, pset, bytes, forever, 
                             eof, plock, nops, stuck, stack, sb, b, fb, rb, cb >>

oc1(self) == /\ pc[self] = "oc1"
             /\ oset' = [oset EXCEPT ![b[self]] = FALSE]
             /\ pc' = [pc EXCEPT ![self] = "oc2"]
             /\ UNCHANGED << buf, bclosed, block, pset, bytes, forever, eof, 
                             orlock, plock, nops, stuck, stack, sb, b, fb, rb, 
                             cb >>

oc2(self) == /\ pc[self] = "oc2"
             /\ IF ~oset[Partner(b[self])]
                   THEN /\ stack' = [stack EXCEPT ![self] = << [ procedure |->  "pipe_clear",
                                                                 pc        |->  "oc3" ] >>
                                                             \o stack[self]]
                        /\ pc' = [pc EXCEPT ![self] = "pc0"]
                   ELSE /\ pc' = [pc EXCEPT ![self] = "oc3"]
                        /\ stack' = stack
             /\ UNCHANGED << buf, bclosed, block, oset, pset, bytes, forever, 
                             eof, orlock, plock, nops, stuck, sb, b, fb, rb, 
                             cb >>

oc3(self) == /\ pc[self] = "oc3"
             /\ IF FixLocks
                   THEN /\ orlock' = Free
                   ELSE /\ TRUE
                        /\ UNCHANGED orlock
             /\ pc' = [pc EXCEPT ![self] = "oc4"]
             /\ UNCHANGED << buf, bclosed, block, oset, pset, bytes, forever, 
                             eof, plock, nops, stuck, stack, sb, b, fb, rb, cb >>

oc4(self) == /\ pc[self] = "oc4"
             /\ pc' = [pc EXCEPT ![self] = Head(stack[self]).pc]
             /\ b' = [b EXCEPT ![self] = Head(stack[self]).b]
             /\ stack' = [stack EXCEPT ![self] = Tail(stack[self])]
             /\ UNCHANGED << buf, bclosed, block, oset, pset, bytes, forever, 
                             eof, orlock, plock, nops, stuck, sb, fb, rb, cb >>

or_clear(self) == oc0(self) \/ oc1(self) \/ oc2(self) \/ oc3(self)
                     \/ oc4(self)

f1(self) == /\ pc[self] = "f1"
            /\ block[fb[self]] = Free
            /\ block' = [block EXCEPT ![fb[self]] = self]
            /\ pc' = [pc EXCEPT ![self] = "f2"]
            /\ UNCHANGED << buf, bclosed, oset, pset, bytes, forever, eof, 
                            orlock, plock, nops, stuck, stack, sb, b, fb, rb, 
                            cb >>

f2(self) == /\ pc[self] = "f2"
            /\ /\ sb' = [sb EXCEPT ![self] = fb[self]]
               /\ stack' = [stack EXCEPT ![self] = << [ procedure |->  "or_set",
                                                        pc        |->  "f3",
                                                        sb        |->  sb[self] ] >>
                                                    \o stack[self]]
            /\ pc' = [pc EXCEPT ![self] = "os0"]
            /\ UNCHANGED << buf, bclosed, block, oset, pset, bytes, forever, 
                            eof, orlock, plock, nops, stuck, b, fb, rb, cb >>

f3(self) == /\ pc[self] = "f3"
            /\ buf' = [buf EXCEPT ![fb[self]] = buf[fb[self]] + 1]
            /\ pc' = [pc EXCEPT ![self] = "f4"]
            /\ UNCHANGED << bclosed, block, oset, pset, bytes, forever, eof, 
                            orlock, plock, nops, stuck, stack, sb, b, fb, rb, 
                            cb >>

f4(self) == /\ pc[self] = "f4"
            /\ block' = [block EXCEPT ![fb[self]] = Free]
            /\ pc' = [pc EXCEPT ![self] = "f5"]
            /\ UNCHANGED << buf, bclosed, oset, pset, bytes, forever, eof, 
                            orlock, plock, nops, stuck, stack, sb, b, fb, rb, 
                            cb >>

f5(self) == /\ pc[self] = "f5"
            /\ pc' = [pc EXCEPT ![self] = Head(stack[self]).pc]
            /\ fb' = [fb EXCEPT ![self] = Head(stack[self]).fb]
            /\ stack' = [stack EXCEPT ![self] = Tail(stack[self])]
            /\ UNCHANGED << buf, bclosed, block, oset, pset, bytes, forever, 
                            eof, orlock, plock, nops, stuck, sb, b, rb, cb >>

feed(self) == f1(self) \/ f2(self) \/ f3(self) \/ f4(self) \/ f5(self)

r1(self) == /\ pc[self] = "r1"
            /\ block[rb[self]] = Free
            /\ block' = [block EXCEPT ![rb[self]] = self]
            /\ pc' = [pc EXCEPT ![self] = "r2"]
            /\ UNCHANGED << buf, bclosed, oset, pset, bytes, forever, eof, 
                            orlock, plock, nops, stuck, stack, sb, b, fb, rb, 
                            cb >>

r2(self) == /\ pc[self] = "r2"
            /\ IF buf[rb[self]] = 0
                  THEN /\ pc' = [pc EXCEPT ![self] = "r5"]
                  ELSE /\ pc' = [pc EXCEPT ![self] = "r3"]
            /\ UNCHANGED << buf, bclosed, block, oset, pset, bytes, forever, 
                            eof, orlock, plock, nops, stuck, stack, sb, b, fb, 
                            rb, cb >>

r3(self) == /\ pc[self] = "r3"
            /\ buf' = [buf EXCEPT ![rb[self]] = 0]
            /\ pc' = [pc EXCEPT ![self] = "r4"]
            /\ UNCHANGED << bclosed, block, oset, pset, bytes, forever, eof, 
                            orlock, plock, nops, stuck, stack, sb, b, fb, rb, 
                            cb >>

r4(self) == /\ pc[self] = "r4"
            /\ IF ~bclosed[rb[self]] \/ ClearWhenClosed
                  THEN /\ /\ b' = [b EXCEPT ![self] = rb[self]]
                          /\ stack' = [stack EXCEPT ![self] = << [ procedure |->  "or_clear",
                                                                   pc        |->  "r5",
                                                                   b         |->  b[self] ] >>
                                                               \o stack[self]]
                       /\ pc' = [pc EXCEPT ![self] = "oc0"]
                  ELSE /\ pc' = [pc EXCEPT ![self] = "r5"]
                       /\ UNCHANGED << stack, b >>
            /\ UNCHANGED << buf, bclosed, block, oset, pset, bytes, forever, 
                            eof, orlock, plock, nops, stuck, sb, fb, rb, cb >>

r5(self) == /\ pc[self] = "r5"
            /\ block' = [block EXCEPT ![rb[self]] = Free]
            /\ pc' = [pc EXCEPT ![self] = "r6"]
            /\ UNCHANGED << buf, bclosed, oset, pset, bytes, forever, eof, 
                            orlock, plock, nops, stuck, stack, sb, b, fb, rb, 
                            cb >>

r6(self) == /\ pc[self] = "r6"
            /\ pc' = [pc EXCEPT ![self] = Head(stack[self]).pc]
            /\ rb' = [rb EXCEPT ![self] = Head(stack[self]).rb]
            /\ stack' = [stack EXCEPT ![self] = Tail(stack[self])]
            /\ UNCHANGED << buf, bclosed, block, oset, pset, bytes, forever, 
                            eof, orlock, plock, nops, stuck, sb, b, fb, cb >>

readall(self) == r1(self) \/ r2(self) \/ r3(self) \/ r4(self) \/ r5(self)
                    \/ r6(self)

c1(self) == /\ pc[self] = "c1"
            /\ block[cb[self]] = Free
            /\ block' = [block EXCEPT ![cb[self]] = self]
            /\ pc' = [pc EXCEPT ![self] = "c2"]
            /\ UNCHANGED << buf, bclosed, oset, pset, bytes, forever, eof, 
                            orlock, plock, nops, stuck, stack, sb, b, fb, rb, 
                            cb >>

c2(self) == /\ pc[self] = "c2"
            /\ bclosed' = [bclosed EXCEPT ![cb[self]] = TRUE]
            /\ pc' = [pc EXCEPT ![self] = "c3"]
            /\ UNCHANGED << buf, block, oset, pset, bytes, forever, eof, 
                            orlock, plock, nops, stuck, stack, sb, b, fb, rb, 
                            cb >>

c3(self) == /\ pc[self] = "c3"
            /\ /\ sb' = [sb EXCEPT ![self] = cb[self]]
               /\ stack' = [stack EXCEPT ![self] = << [ procedure |->  "or_set",
                                                        pc        |->  "c4",
                                                        sb        |->  sb[self] ] >>
                                                    \o stack[self]]
            /\ pc' = [pc EXCEPT ![self] = "os0"]
            /\ UNCHANGED << buf, bclosed, block, oset, pset, bytes, forever, 
                            eof, orlock, plock, nops, stuck, b, fb, rb, cb >>

c4(self) == /\ pc[self] = "c4"
            /\ block' = [block EXCEPT ![cb[self]] = Free]
            /\ pc' = [pc EXCEPT ![self] = "c5"]
            /\ UNCHANGED << buf, bclosed, oset, pset, bytes, forever, eof, 
                            orlock, plock, nops, stuck, stack, sb, b, fb, rb, 
                            cb >>

c5(self) == /\ pc[self] = "c5"
            /\ pc' = [pc EXCEPT ![self] = Head(stack[self]).pc]
            /\ cb' = [cb EXCEPT ![self] = Head(stack[self]).cb]
            /\ stack' = [stack EXCEPT ![self] = Tail(stack[self])]
            /\ UNCHANGED << buf, bclosed, block, oset, pset, bytes, forever, 
                            eof, orlock, plock, nops, stuck, sb, b, fb, rb >>

bclose(self) == c1(self) \/ c2(self) \/ c3(self) \/ c4(self) \/ c5(self)

sf0(self) == /\ pc[self] = "sf0"
             /\ IF FixLocks
                   THEN /\ plock = Free
                        /\ plock' = self
                   ELSE /\ TRUE
                        /\ plock' = plock
             /\ pc' = [pc EXCEPT ![self] = "sf1"]
             /\ UNCHANGED << buf, bclosed, block, oset, pset, bytes, forever, 
                             eof, orlock, nops, stuck, stack, sb, b, fb, rb, 
                             cb >>

sf1(self) == /\ pc[self] = "sf1"
             /\ forever' = TRUE
             /\ pc' = [pc EXCEPT ![self] = "sf2"]
             /\ UNCHANGED << buf, bclosed, block, oset, pset, bytes, eof, 
                             orlock, plock, nops, stuck, stack, sb, b, fb, rb, 
                             cb >>

sf2(self) == /\ pc[self] = "sf2"
             /\ IF ~pset
                   THEN /\ pset' = TRUE
                        /\ bytes' = bytes + 1
                   ELSE /\ TRUE
                        /\ UNCHANGED << pset, bytes >>
             /\ pc' = [pc EXCEPT ![self] = "sf3"]
             /\ UNCHANGED << buf, bclosed, block, oset, forever, eof, orlock, 
                             plock, nops, stuck, stack, sb, b, fb, rb, cb >>

sf3(self) == /\ pc[self] = "sf3"
             /\ IF FixLocks
                   THEN /\ plock' = Free
                   ELSE /\ TRUE
                        /\ plock' = plock
             /\ pc' = [pc EXCEPT ![self] = "sf4"]
             /\ UNCHANGED << buf, bclosed, block, oset, pset, bytes, forever, 
                             eof, orlock, nops, stuck, stack, sb, b, fb, rb, 
                             cb >>

sf4(self) == /\ pc[self] = "sf4"
             /\ pc' = [pc EXCEPT ![self] = Head(stack[self]).pc]
             /\ stack' = [stack EXCEPT ![self] = Tail(stack[self])]
             /\ UNCHANGED << buf, bclosed, block, oset, pset, bytes, forever, 
                             eof, orlock, plock, nops, stuck, sb, b, fb, rb, 
                             cb >>

set_forever(self) == sf0(self) \/ sf1(self) \/ sf2(self) \/ sf3(self)
                        \/ sf4(self)

t0 == /\ pc["T"] = "t0"
      /\ IF nops["T"] < MaxOps /\ ~eof
            THEN /\ nops' = [nops EXCEPT !["T"] = nops["T"] + 1]
                 /\ \/ /\ /\ fb' = [fb EXCEPT !["T"] = 1]
                          /\ stack' = [stack EXCEPT !["T"] = << [ procedure |->  "feed",
                                                                  pc        |->  "t0",
                                                                  fb        |->  fb["T"] ] >>
                                                              \o stack["T"]]
                       /\ pc' = [pc EXCEPT !["T"] = "f1"]
                    \/ /\ /\ fb' = [fb EXCEPT !["T"] = 2]
                          /\ stack' = [stack EXCEPT !["T"] = << [ procedure |->  "feed",
                                                                  pc        |->  "t0",
                                                                  fb        |->  fb["T"] ] >>
                                                              \o stack["T"]]
                       /\ pc' = [pc EXCEPT !["T"] = "f1"]
                    \/ /\ pc' = [pc EXCEPT !["T"] = "te1"]
                       /\ UNCHANGED <<stack, fb>>
            ELSE /\ pc' = [pc EXCEPT !["T"] = "Done"]
                 /\ UNCHANGED << nops, stack, fb >>
      /\ UNCHANGED << buf, bclosed, block, oset, pset, bytes, forever, eof, 
                      orlock, plock, stuck, sb, b, rb, cb >>

te1 == /\ pc["T"] = "te1"
       /\ /\ cb' = [cb EXCEPT !["T"] = 1]
          /\ stack' = [stack EXCEPT !["T"] = << [ procedure |->  "bclose",
                                                  pc        |->  "te2",
                                                  cb        |->  cb["T"] ] >>
                                              \o stack["T"]]
       /\ pc' = [pc EXCEPT !["T"] = "c1"]
       /\ UNCHANGED << buf, bclosed, block, oset, pset, bytes, forever, eof, 
                       orlock, plock, nops, stuck, sb, b, fb, rb >>

te2 == /\ pc["T"] = "te2"
       /\ /\ cb' = [cb EXCEPT !["T"] = 2]
          /\ stack' = [stack EXCEPT !["T"] = << [ procedure |->  "bclose",
                                                  pc        |->  "te3",
                                                  cb        |->  cb["T"] ] >>
                                              \o stack["T"]]
       /\ pc' = [pc EXCEPT !["T"] = "c1"]
       /\ UNCHANGED << buf, bclosed, block, oset, pset, bytes, forever, eof, 
                       orlock, plock, nops, stuck, sb, b, fb, rb >>

te3 == /\ pc["T"] = "te3"
       /\ stack' = [stack EXCEPT !["T"] = << [ procedure |->  "set_forever",
                                               pc        |->  "te4" ] >>
                                           \o stack["T"]]
       /\ pc' = [pc EXCEPT !["T"] = "sf0"]
       /\ UNCHANGED << buf, bclosed, block, oset, pset, bytes, forever, eof, 
                       orlock, plock, nops, stuck, sb, b, fb, rb, cb >>

te4 == /\ pc["T"] = "te4"
       /\ eof' = TRUE
       /\ pc' = [pc EXCEPT !["T"] = "t0"]
       /\ UNCHANGED << buf, bclosed, block, oset, pset, bytes, forever, orlock, 
                       plock, nops, stuck, stack, sb, b, fb, rb, cb >>

Transport == t0 \/ te1 \/ te2 \/ te3 \/ te4

q0(self) == /\ pc[self] = "q0"
            /\ IF nops[self] < MaxOps
                  THEN /\ nops' = [nops EXCEPT ![self] = nops[self] + 1]
                       /\ /\ rb' = [rb EXCEPT ![self] = IF self = "R1" THEN 1 ELSE 2]
                          /\ stack' = [stack EXCEPT ![self] = << [ procedure |->  "readall",
                                                                   pc        |->  "q0",
                                                                   rb        |->  rb[self] ] >>
                                                               \o stack[self]]
                       /\ pc' = [pc EXCEPT ![self] = "r1"]
                  ELSE /\ pc' = [pc EXCEPT ![self] = "Done"]
                       /\ UNCHANGED << nops, stack, rb >>
            /\ UNCHANGED << buf, bclosed, block, oset, pset, bytes, forever, 
                            eof, orlock, plock, stuck, sb, b, fb, cb >>

Reader(self) == q0(self)

(* Allow infinite stuttering to prevent deadlock on termination. *)
Terminating == /\ \A self \in ProcSet: pc[self] = "Done"
               /\ UNCHANGED vars

Next == Transport
           \/ (\E self \in ProcSet:  \/ pipe_set(self) \/ pipe_clear(self)
                                     \/ or_set(self) \/ or_clear(self)
                                     \/ feed(self) \/ readall(self)
                                     \/ bclose(self) \/ set_forever(self))
           \/ (\E self \in {"R1", "R2"}: Reader(self))
           \/ Terminating

Spec == Init /\ [][Next]_vars

Termination == <>(\A self \in ProcSet: pc[self] = "Done")

\* END TRANSLATION 
 
 

(* ---- C24 ---- *)
TopLevel == {"t0", "q0", "Done"}
Quiescent == \A p \in ProcSet : pc[p] \in TopLevel            \* no operation in progress anywhere
\* the statement: at quiescent points the descriptor is readable iff data is buffered or EOF was reached
ReadableIffData == Quiescent => (Readable <=> ShouldBeReadable)
\* a reader must never block inside clear() (os.read on an empty pipe)
NeverStuck == ~stuck
=============================================================================
