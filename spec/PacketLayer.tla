----------------------------- MODULE PacketLayer -----------------------------
(* C01 / C02.  One direction of the SSH binary packet protocol once encryption  *)
(* is on: Packetizer.send_message / _build_packet on the sending side, the      *)
(* byte stream (fragmented arbitrarily, possibly edited by an attacker) and     *)
(* Packetizer.read_all / read_message on the receiving side (paramiko/packet.py)*)
(* together with the key switch done by Transport._activate_outbound /          *)
(* _activate_inbound (paramiko/transport.py).                                   *)
(*                                                                              *)
(* Cryptography is abstract: a packet is sealed with the sender's (epoch,       *)
(* sequence number) - the key set and the number mixed into the MAC / the GCM   *)
(* invocation counter - and verifies iff it is untouched and the receiver is at *)
(* the same (epoch, sequence number).  Compression is a per-key-epoch stream    *)
(* whose state spans packets (paramiko/compress.py): a payload inflates to what *)
(* was deflated iff the inflater is at the stream position it was deflated at.  *)
EXTENDS Naturals, Sequences, FiniteSets, TLC

CONSTANTS NMsgs,      \* number of messages the sender sends
          SeqMod,     \* sequence numbers are counted modulo this (wrap-around class)
          MaxSwitch,  \* key switches allowed
          MaxTamper,  \* attacker actions allowed (0 = honest network, C01)
          MaxChunk,   \* largest fragment (in cells) one Arrive may deliver
          Stricts,    \* subset of BOOLEAN: strict-kex settings explored (seqno reset at NEWKEYS)
          Zlibs,      \* subset of BOOLEAN: compression settings explored
          Modes,      \* subset of {"classic", "etm", "aead"}: framing / verification modes a key epoch may have
          Partial,    \* TRUE: also explore the receiver inside read_all (header partly consumed, socket
                      \*       timeouts, the need-rekey flag) and the sender inside write_all (send() accepts part
                      \*       of the packet, times out); FALSE: read_message / send_message are one step each
          SThreads,   \* sender threads calling send_message concurrently; {} = one sender, send_message is one step
          Mutations   \* seeded defects a behaviour may start with (cfg.mut), to show the properties bite:
                      \*   "nomac"  receiver skips MAC / tag verification
                      \*   "noseq"  sequence number left out of the MAC input
                      \*   "zout"   _activate_outbound keeps the old deflater
                      \*   "zin"    _activate_inbound keeps the old inflater
                      \*   "stalemode"  the "MAC is compared after decryption" decision is remembered from an earlier
                      \*                key epoch (switched off by an ETM / AEAD epoch, never switched on again)
                      \*   "zoutside"   the payload is deflated BEFORE the write lock is taken, and deflate blocks refer back
                      \*                to earlier packets (sync flush): wire order may differ from deflate order
                      \*   "stalecount" write_all re-applies the byte count of the previous send() after a socket timeout
                      \*                (bytes of the packet never reach the socket)
                      \*   "rekeydrop"  the idle-read NeedRekeyException also fires when part of the next packet's
                      \*                header has already been consumed (those bytes are lost)

VARIABLES cfg,        \* [strict, zlib, mode0, mut]: fixed per behaviour; mode0 = mode of the first key epoch,
                      \* mut = "none" is the code as it is
          sent,       \* Seq of message ids handed to send_message, in order
          wire,       \* Seq of packet records written to the socket and not yet consumed
          arrived,    \* how many cells of `wire` (from its head) reached the receiver's socket
          sseq, sepoch, szid, szpos,      \* sender: sequence number, key epoch, deflater id / position
          smode,                          \* sender: framing mode of its current key epoch
          wcells,     \* sender, write_all: cells of the LAST packet on the wire the socket has accepted so far
          wlast,      \* sender, write_all: `n`, the number of cells the most recent send() accepted
          lock,       \* sender: holder of Packetizer.__write_lock (0 = free)
          pend,       \* sender: per thread, where it is inside send_message: [st |-> "idle" | "locked" | "deflated",
                      \*         zid, zpos |-> position in the deflate stream its payload was compressed at]
          rseq, repoch, rzid, rzpos,      \* receiver: the same
          rmode,      \* receiver: framing mode of its current key epoch (etm / aead verify before decrypting)
          rtrail,     \* receiver: "compare the MAC after decryption" (what classic mode needs)
          rneed,      \* receiver: Packetizer.__need_rekey is raised (we have asked for a key exchange)
          taken,      \* receiver: cells of the head packet's HEADER that read_all has consumed so far (0..2)
          delivered,  \* Seq of what read_message returned: message id, or Alien
          rstate,     \* "ok" | "failed" (exception) | "waiting" (blocked for bytes that never come)
          nsw, ntamper
svars == <<sseq, sepoch, szid, szpos, smode, wcells, wlast, lock, pend>>
rvars == <<rseq, repoch, rzid, rzpos, rmode, rtrail, rneed, taken, delivered, rstate>>
vars  == <<cfg, sent, wire, arrived, svars, rvars, nsw, ntamper>>

Cells == 4     \* a packet arrives in up to 4 pieces: part of the first block | rest of it | part of the body | rest + MAC
Alien == 0     \* a delivered payload that differs from every sent one
NK    == 0     \* mid of a NEWKEYS packet
Regions == {"length", "padlen", "payload", "padding", "mac"}
DirtyRegions == {"length", "padlen", "payload"}     \* a change here changes what would be handed up

IsPrefix(a, b) == Len(a) <= Len(b) /\ \A i \in 1..Len(a) : a[i] = b[i]
CeilDiv(a, b) == (a + b - 1) \div b

Pkt(mid, kind) == [mid |-> mid, kind |-> kind, seq |-> sseq, epoch |-> sepoch,
                   zid |-> szid, zpos |-> szpos,
                   next |-> smode,      \* (NEWKEYS) the mode of the epoch it opens
                   intact |-> TRUE,     \* no byte of it was changed
                   dirty  |-> FALSE,    \* length / padding-length / payload bytes were changed
                   lenok  |-> TRUE,     \* the length field (hence the framing) is as sent
                   whole  |-> TRUE]     \* FALSE: the stream ends inside this packet

Lost(p)   == [p EXCEPT !.intact = FALSE, !.dirty = TRUE, !.lenok = FALSE]     \* a packet whose framing is gone
Idle      == [st |-> "idle", zid |-> 0, zpos |-> 0]
CheckMac  == cfg.mut # "nomac"
MacHasSeq == cfg.mut # "noseq"
FreshZOut == cfg.mut # "zout"
FreshZIn  == cfg.mut # "zin"

Init == /\ cfg \in [strict : Stricts, zlib : Zlibs, mode0 : Modes, mut : {"none"} \cup Mutations]
        /\ wcells = Cells /\ wlast = 0
        /\ lock = 0 /\ pend = [t \in SThreads |-> Idle]
        /\ smode = cfg.mode0 /\ rmode = cfg.mode0 /\ rtrail = (cfg.mode0 = "classic") /\ rneed = FALSE /\ taken = 0
        /\ sent = <<>> /\ wire = <<>> /\ arrived = 0
        /\ sseq = 0 /\ sepoch = 0 /\ szid = 0 /\ szpos = 0
        /\ rseq = 0 /\ repoch = 0 /\ rzid = 0 /\ rzpos = 0
        /\ delivered = <<>> /\ rstate = "ok" /\ nsw = 0 /\ ntamper = 0

(* ---- sender ---- *)
\* send_message: deflate (stream advances), _build_packet, encrypt, MAC over seqno||packet, seqno+1
\* (the packet is handed to write_all; when Partial, the socket takes it piece by piece: PartialSend)
Written == IF wire = <<>> THEN 0 ELSE Cells * (Len(wire) - 1) + wcells
SendMessage ==
    /\ SThreads = {}
    /\ Len(sent) < NMsgs /\ wcells = Cells
    /\ wcells' = (IF Partial THEN 0 ELSE Cells) /\ wlast' = 0
    /\ sent' = Append(sent, Len(sent) + 1)
    /\ wire' = Append(wire, Pkt(Len(sent) + 1, "data"))
    /\ sseq' = (sseq + 1) % SeqMod
    /\ szpos' = IF cfg.zlib THEN szpos + 1 ELSE szpos
    /\ UNCHANGED <<cfg, arrived, sepoch, szid, smode, lock, pend, rvars, nsw, ntamper>>

(* send_message with several threads: `self.__write_lock.acquire()`, then deflate, build, encrypt, MAC, write,
   release.  The deflate stream, the sequence number and the socket are shared; the lock makes deflate order =
   sequence-number order = wire order.  `sent` is the order in which the messages went onto the wire. *)
Busy == {t \in SThreads : pend[t].st # "idle"}
DeflateOutside == cfg.mut = "zoutside"
AcquireWriteLock(t) ==
    /\ t \in SThreads /\ pend[t].st = "idle" /\ lock = 0 /\ ~DeflateOutside
    /\ Len(sent) + Cardinality(Busy) < NMsgs
    /\ lock' = t /\ pend' = [pend EXCEPT ![t].st = "locked"]
    /\ UNCHANGED <<cfg, sent, wire, arrived, sseq, sepoch, szid, szpos, smode, wcells, wlast, rvars, nsw, ntamper>>
Deflate(t) ==
    /\ t \in SThreads
    /\ IF DeflateOutside THEN pend[t].st = "idle" /\ Len(sent) + Cardinality(Busy) < NMsgs
                         ELSE pend[t].st = "locked" /\ lock = t
    /\ pend' = [pend EXCEPT ![t] = [st |-> "deflated", zid |-> szid, zpos |-> szpos]]
    /\ szpos' = IF cfg.zlib THEN szpos + 1 ELSE szpos
    /\ UNCHANGED <<cfg, sent, wire, arrived, sseq, sepoch, szid, smode, wcells, wlast, lock, rvars, nsw, ntamper>>
\* build, encrypt, MAC with the current sequence number, write, release (the lock is taken here when the payload
\* was deflated outside it)
WritePacket(t) ==
    /\ t \in SThreads /\ pend[t].st = "deflated" /\ wcells = Cells
    /\ IF DeflateOutside THEN lock = 0 ELSE lock = t
    /\ sent' = Append(sent, Len(sent) + 1)
    /\ wire' = Append(wire, [Pkt(Len(sent) + 1, "data") EXCEPT !.zid = pend[t].zid, !.zpos = pend[t].zpos])
    /\ sseq' = (sseq + 1) % SeqMod
    /\ lock' = 0 /\ pend' = [pend EXCEPT ![t] = Idle]
    /\ UNCHANGED <<cfg, arrived, sepoch, szid, szpos, smode, wcells, wlast, rvars, nsw, ntamper>>

\* _activate_outbound: NEWKEYS goes out under the old keys (and through the old deflater), then the
\* keys, the algorithms (mode m), the deflater and (strict kex) the sequence number are replaced
ActivateOutbound(m) ==
    /\ nsw < MaxSwitch /\ m \in Modes /\ wcells = Cells /\ lock = 0 /\ Busy = {}
    /\ wcells' = (IF Partial THEN 0 ELSE Cells) /\ wlast' = 0
    /\ wire' = Append(wire, [Pkt(NK, "newkeys") EXCEPT !.next = m])
    /\ smode' = m
    /\ sseq' = IF cfg.strict THEN 0 ELSE (sseq + 1) % SeqMod
    /\ sepoch' = sepoch + 1
    /\ szid'  = IF cfg.zlib /\ FreshZOut THEN sepoch + 1 ELSE szid
    /\ szpos' = IF cfg.zlib THEN (IF FreshZOut THEN 0 ELSE szpos + 1) ELSE szpos
    /\ nsw' = nsw + 1
    /\ UNCHANGED <<cfg, sent, arrived, lock, pend, rvars, ntamper>>

\* write_all: `n = self.__socket.send(out)` accepted k cells of what was left; `out = out[n:]`
PartialSend(k) ==
    /\ Partial /\ wire # <<>> /\ wcells < Cells /\ k \in 1..(Cells - wcells)
    /\ wcells' = wcells + k /\ wlast' = k
    /\ UNCHANGED <<cfg, sent, wire, arrived, sseq, sepoch, szid, szpos, smode, lock, pend, rvars, nsw, ntamper>>
\* write_all: send() raised socket.timeout / EAGAIN: `n = 0`, nothing is skipped, the loop sends the same `out`
\* again (no state change).  A version that keeps the previous n skips that many cells of the packet: they never
\* reach the socket, the packet on the wire is garbage.
SendTimeout ==
    /\ Partial /\ wire # <<>> /\ wcells < Cells
    /\ cfg.mut = "stalecount" /\ wlast > 0
    /\ wire' = [wire EXCEPT ![Len(wire)] = Lost(wire[Len(wire)])]
    /\ wcells' = (IF wcells + wlast > Cells THEN Cells ELSE wcells + wlast) /\ wlast' = wlast
    /\ UNCHANGED <<cfg, sent, arrived, sseq, sepoch, szid, szpos, smode, lock, pend, rvars, nsw, ntamper>>

(* ---- network: bytes trickle in (socket reads return any split, timeouts in between) ---- *)
Arrive(k) ==
    /\ k \in 1..MaxChunk
    /\ arrived + k <= Written
    /\ arrived' = arrived + k
    /\ UNCHANGED <<cfg, sent, wire, svars, rvars, nsw, ntamper>>

(* ---- receiver ---- *)
\* read_message: ETM checks the MAC before decrypting, AES-GCM authenticates while decrypting; in classic mode
\* the MAC is compared after decryption - `if mac_size_in > 0 and not etm_in and not aead_in`
MacSkipped  == ~CheckMac \/ (rmode = "classic" /\ ~rtrail)
Verifies(p) == \/ MacSkipped
               \/ /\ p.intact /\ p.whole
                  /\ p.epoch = repoch
                  /\ (MacHasSeq => p.seq = rseq)
\* a deflate block written with a full flush stands on its own; with a sync flush it may refer back to the packets
\* deflated before it, so it inflates to what was deflated only at exactly that position of the stream
Chained     == cfg.mut = "zoutside"
Inflates(p) == ~cfg.zlib \/ (p.zid = rzid /\ (p.zpos = rzpos \/ ~Chained))

\* what read_message can do with packet p: "ok" = hand it up, "failed" = raise, "waiting" = block
Accepts(p)  == p.whole /\ Verifies(p) /\ (p.kind = "newkeys" => Inflates(p) /\ ~p.dirty)
\* the receiver's cipher state is where p was sealed, so it sees p's length field as it is on the wire
Positioned(p) == p.epoch = repoch /\ p.seq = rseq
Outcomes(p) == IF Accepts(p) THEN {"ok"}
               ELSE IF Positioned(p) /\ p.lenok /\ p.whole THEN {"failed"}     \* right amount read, MAC / tag mismatch
               ELSE IF Positioned(p) /\ p.intact /\ ~p.whole /\ Len(wire) = 1
                    THEN {"waiting"}                                          \* the stream ends inside the packet
               ELSE {"failed", "waiting"}    \* the length it sees is arbitrary: bad blocking, MAC mismatch over
                                             \* whatever it read, or a wait for bytes that never come
\* read_message returns only when read_all has collected the whole packet; the way it was split
\* into socket reads does not matter (that is what the replay on the code tests)
ReadMessage ==
    /\ rstate = "ok" /\ wire # <<>> /\ arrived >= Cells
    /\ LET p == Head(wire) IN
         /\ rstate' \in Outcomes(p)
         /\ IF Accepts(p)
              THEN /\ rseq'   = IF p.kind = "newkeys" /\ cfg.strict THEN 0 ELSE (rseq + 1) % SeqMod
                   /\ repoch' = IF p.kind = "newkeys" THEN repoch + 1 ELSE repoch
                   /\ rzid'   = IF p.kind = "newkeys" /\ cfg.zlib /\ FreshZIn THEN repoch + 1 ELSE rzid
                   /\ rzpos'  = IF ~cfg.zlib THEN rzpos
                                ELSE IF p.kind = "newkeys" /\ FreshZIn THEN 0 ELSE rzpos + 1
                   /\ delivered' = IF p.kind = "data"
                                     THEN Append(delivered, IF p.dirty \/ ~Inflates(p) THEN Alien ELSE p.mid)
                                     ELSE delivered
                   \* _activate_inbound -> set_inbound_cipher(etm=..., aead=...)
                   /\ rmode'  = IF p.kind = "newkeys" THEN p.next ELSE rmode
                   /\ rtrail' = IF p.kind # "newkeys" THEN rtrail
                                ELSE IF p.next # "classic" THEN FALSE
                                ELSE IF cfg.mut = "stalemode" THEN rtrail ELSE TRUE
              ELSE UNCHANGED <<rseq, repoch, rzid, rzpos, delivered, rmode, rtrail>>
    /\ taken' = 0 /\ rneed' = rneed
    /\ wire' = Tail(wire)
    /\ arrived' = arrived - Cells
    /\ UNCHANGED <<cfg, sent, svars, nsw, ntamper>>

(* ---- inside read_all(header, check_rekey=True), explored when Partial ---- *)
\* a counter reached its limit / we sent KEXINIT: the flag stays up until the peer's NEWKEYS has been handled
RaiseNeedRekey == /\ Partial /\ ~rneed /\ rneed' = TRUE
                  /\ UNCHANGED <<cfg, sent, wire, arrived, svars, rseq, repoch, rzid, rzpos, rmode, rtrail, taken,
                                  delivered, rstate, nsw, ntamper>>
\* a socket read returned part of the first block of the next packet
Consume == /\ Partial /\ rstate = "ok" /\ wire # <<>> /\ taken < 2 /\ taken < arrived
           /\ taken' = taken + 1
           /\ UNCHANGED <<cfg, sent, wire, arrived, svars, rseq, repoch, rzid, rzpos, rmode, rtrail, rneed,
                           delivered, rstate, nsw, ntamper>>
\* the socket timed out in the middle of the header, need_rekey is up: `if check_rekey and len(out) == 0 and
\* self.__need_rekey: raise NeedRekeyException()` - only with NOTHING of the packet consumed, which leaves the
\* stream untouched (the run loop just calls read_message again).  A version that raises with bytes consumed
\* throws those bytes away: the rest of the packet is garbage to the receiver.
NeedRekeyOnIdle ==
    /\ Partial /\ rstate = "ok" /\ rneed /\ wire # <<>> /\ arrived < 2 /\ taken = arrived
    /\ taken > 0 /\ cfg.mut = "rekeydrop"         \* (taken = 0: no state changes at all)
    /\ wire' = [wire EXCEPT ![1] = Lost(wire[1])] /\ taken' = 0
    /\ UNCHANGED <<cfg, sent, arrived, svars, rseq, repoch, rzid, rzpos, rmode, rtrail, rneed, delivered, rstate,
                    nsw, ntamper>>

(* ---- attacker on the ciphertext stream (only on packets no byte of which has arrived yet) ---- *)
Untouched(i) == i \in 1..Len(wire) /\ i > CeilDiv(arrived, Cells)
Attack(w) == /\ wcells = Cells /\ ntamper < MaxTamper /\ ntamper' = ntamper + 1 /\ wire' = w
             /\ arrived' = IF arrived > Cells * Len(w) THEN Cells * Len(w) ELSE arrived
             /\ UNCHANGED <<cfg, sent, svars, rvars, nsw>>
Mark(p, r) == [p EXCEPT !.intact = FALSE,
                        !.dirty  = p.dirty \/ r \in DirtyRegions,
                        !.lenok  = p.lenok /\ r # "length"]
\* change the value of one byte in region r of packet i
Flip(i, r)  == Untouched(i) /\ r \in Regions /\ Attack([wire EXCEPT ![i] = Mark(wire[i], r)])
\* remove / add one byte inside packet i: its own framing is lost (and with it the framing of whatever is
\* behind it when it is read - which no longer matters, because the receiver stops at this packet)
DelByte(i)  == Untouched(i) /\ Attack([wire EXCEPT ![i] = Lost(wire[i])])
InsByte(i)  == DelByte(i)
Drop(i)     == Untouched(i) /\ Attack(SubSeq(wire, 1, i - 1) \o SubSeq(wire, i + 1, Len(wire)))
Replay(i)   == Untouched(i) /\ Attack(SubSeq(wire, 1, i) \o <<wire[i]>> \o SubSeq(wire, i + 1, Len(wire)))
Swap(i)     == Untouched(i) /\ i < Len(wire) /\ Attack([wire EXCEPT ![i] = wire[i + 1], ![i + 1] = wire[i]])
\* the stream ends inside packet i
Cut(i)      == Untouched(i) /\ Attack(Append(SubSeq(wire, 1, i - 1), [wire[i] EXCEPT !.whole = FALSE]))

Attacker == \E i \in 1..(NMsgs + MaxSwitch + 1) :
               \/ \E r \in Regions : Flip(i, r)
               \/ DelByte(i) \/ Drop(i) \/ Replay(i) \/ Swap(i) \/ Cut(i)

Next == SendMessage \/ (\E m \in Modes : ActivateOutbound(m)) \/ ReadMessage \/ (\E k \in 1..MaxChunk : Arrive(k)) \/ Attacker
        \/ RaiseNeedRekey \/ Consume \/ NeedRekeyOnIdle
        \/ (\E k \in 1..Cells : PartialSend(k)) \/ SendTimeout
        \/ (\E t \in SThreads : AcquireWriteLock(t) \/ Deflate(t) \/ WritePacket(t))
Spec == Init /\ [][Next]_vars

(* ---- properties (of the code as it is: cfg.mut = "none") ---- *)
TypeOK == /\ arrived \in 0..Written /\ wcells \in 0..Cells
          /\ rstate \in {"ok", "failed", "waiting"}
          /\ sseq \in 0..(SeqMod - 1) /\ rseq \in 0..(SeqMod - 1)
          /\ lock \in {0} \cup SThreads /\ (lock # 0 => pend[lock].st # "idle")
          /\ taken \in 0..2 /\ rmode \in Modes /\ smode \in Modes
PrefixOnly0   == IsPrefix(delivered, sent)                                   \* C02 and C01: order, no dup, no alien
NoAlien0      == \A i \in 1..Len(delivered) : delivered[i] # Alien
AllDelivered0 == (ntamper = 0 /\ wire = <<>> /\ rstate = "ok") => delivered = sent      \* C01: no loss
NeverFailsHonest0 == ntamper = 0 => rstate = "ok"                            \* C01
\* C01, the reason it works: on an honest network the receiver is always positioned exactly where the
\* packet at the head of the wire was sealed (keys, sequence number, compression stream)
SyncHonest0   == (ntamper = 0 /\ wire # <<>>) =>
                   LET p == Head(wire) IN /\ p.seq = rseq /\ p.epoch = repoch /\ p.intact
                                          /\ (rmode = "classic" => rtrail)
                                          /\ (cfg.zlib => p.zid = rzid /\ p.zpos = rzpos)
Asis == cfg.mut = "none"
PrefixOnly       == Asis => PrefixOnly0
NoAlien          == Asis => NoAlien0
AllDelivered     == Asis => AllDelivered0
NeverFailsHonest == Asis => NeverFailsHonest0
SyncHonest       == Asis => SyncHonest0
\* C02: once the receiver has hit a bad packet it never hands up anything again
StopsAtFirstBad == [][rstate # "ok" => delivered' = delivered /\ rstate' = rstate]_vars
\* every seeded defect is noticed by one of the properties (printed per defect and property, see the checks)
Caught == (~Asis /\ ~(PrefixOnly0 /\ NoAlien0 /\ AllDelivered0 /\ NeverFailsHonest0 /\ SyncHonest0)) =>
             PrintT(<<"CAUGHT", cfg.mut, ~PrefixOnly0, ~NoAlien0, ~AllDelivered0, ~NeverFailsHonest0, ~SyncHonest0>>)
=============================================================================
