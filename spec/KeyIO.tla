------------------------------- MODULE KeyIO -------------------------------
(* C36.  Serialisation of SSH key objects (paramiko/pkey.py, rsakey.py,            *)
(* ecdsakey.py, ed25519key.py).  Cryptography is symbolic: a key pair is            *)
(* (type, material); its public encoding is the term Pub(type, material); a         *)
(* private key file holds Priv(type, material) in the clear or sealed under a       *)
(* passphrase token and opens only with the same token.                             *)
(*                                                                                  *)
(* Two little machines share the module (`mode` says which one a behaviour runs):   *)
(*  "file": Prepare -> W_OpenCreate -> W_Serialize -> L_Load, i.e.                  *)
(*          write_private_key_file / write_private_key  (os.open(O_CREAT|O_TRUNC,   *)
(*          0600), then private_bytes with BestAvailableEncryption) followed by one *)
(*          of the loaders; or UseBundled -> L_Load for the key files shipped with   *)
(*          the tests (the only source of Ed25519 private keys).                    *)
(*  "cmp":  Compare(a, b) of two key objects obtained in any way                    *)
(*          (__eq__, __hash__, fingerprint, asbytes).                               *)
(*  "hist": H_Load(lp, lc) repeated: the SAME sealed private key file is loaded      *)
(*          several times in one process with different passphrases and through      *)
(*          the file's own key class or another one (SSHClient offers every file to   *)
(*          every class).  As stated each answer depends on that load's passphrase    *)
(*          only; `kcache` is the process-wide memory a defective implementation      *)
(*          could key its decryption on instead.                                      *)
(* `Defects` holds artificial mutations only (sensitivity runs); {} = as stated.    *)
EXTENDS Naturals, FiniteSets, Sequences, TLC

CONSTANTS Defects,
          MaxHist      \* longest load history explored (mode "hist")
Mutations == {"create_0644", "pass_ignored_on_write", "load_ignores_password", "eq_private", "hash_private",
              "public_drops_type",
              "eq_cert",
              "clamp_passphrase_on_write",      \* the writer seals with only the first 1023 octets of the passphrase, the
                                                \* reader derives from all of it (seeded change C36e)
              "kdf_cache_ignores_passphrase"}   \* the bcrypt KDF result is remembered per (salt, rounds, size), not per
                                                \* passphrase: later loads of that file reuse it (seeded change C36d)     \* __eq__ also compares the certificates when both sides carry one (seeded change C36a)
ASSUME Defects \subseteq Mutations

(* ------------------------------ key objects ------------------------------ *)
Types       == {"rsa", "ecdsa256", "ecdsa384", "ecdsa521", "ed25519"}
Writable(t) == t # "ed25519"                   \* there is no Ed25519 writer (nor generator)
Mats        == {"k1", "k2"}
\* certificate-bearing kinds: a private key with a certificate attached (load_certificate) and a key parsed
\* from a certificate blob; certificate A is the bundled fixture where the tests have one (else synthesised),
\* certificate B is a second, different certificate for the SAME key (re-issued: other serial / id / nonce)
Kinds       == {"generated", "loaded", "public", "loaded_cert", "public_cert", "loaded_cert_b", "public_cert_b"}
Private(k)  == k \in {"generated", "loaded", "loaded_cert", "loaded_cert_b"}
Cert(k)     == CASE k \in {"loaded_cert", "public_cert"} -> "A" [] k \in {"loaded_cert_b", "public_cert_b"} -> "B"
                 [] OTHER -> "none"
KAvail(t, m, k) == /\ (k = "generated" => t # "ed25519")
                   /\ (Cert(k) # "none" => m = "k1")
KeyObj(t, m, k) == [type |-> t, mat |-> m, kind |-> k]
NoObj   == KeyObj("-", "-", "-")
KeyObjs == {o \in {KeyObj(t, m, k) : t \in Types, m \in Mats, k \in Kinds} : KAvail(o.type, o.mat, o.kind)}
Pub(o)  == IF "public_drops_type" \in Defects THEN <<o.mat>> ELSE <<o.type, o.mat>>   \* the public key material
SamePublic(a, b) == a.type = b.type /\ a.mat = b.mat

(* ------------------------------ permissions ------------------------------ *)
GroupOther == {"gr", "gw", "gx", "or", "ow", "ox"}
CreateMode == IF "create_0644" \in Defects THEN {"ur", "uw", "gr", "or"} ELSE {"ur", "uw"}
Umasks     == {"000", "022", "027", "077", "277"}
UmaskBits(u) == CASE u = "000" -> {} [] u = "022" -> {"gw", "ow"} [] u = "027" -> {"gw", "or", "ow", "ox"}
                  [] u = "077" -> GroupOther [] u = "277" -> GroupOther \cup {"uw"}
Targets    == {"absent", "dangling_link", "exists_0600", "exists_0644", "exists_0666", "file_obj"}
Creates(t) == t \in {"absent", "dangling_link"}
ModeOf(t)  == CASE t = "exists_0600" -> {"ur", "uw"} [] t = "exists_0644" -> {"ur", "uw", "gr", "or"}
                [] t = "exists_0666" -> {"ur", "uw", "gr", "gw", "or", "ow"} [] OTHER -> {}

(* ------------------------------ passphrases ------------------------------ *)
\* passphrase LENGTH classes (octets of the UTF-8 encoding) around OpenSSL's PEM limit of 1023: a writer may refuse
\* a passphrase over the limit (the pinned backend does: ValueError), but a file it does write is sealed with
\* exactly the passphrase given.  "prefix" / "extension" are wrong passphrases that are a proper prefix of the right
\* one / start with the right one (only generated against the sized classes).
SizedPass == {"sized_1", "sized_1022", "sized_1023", "sized_1024", "sized_4096"}
OverLimit == {"sized_1024", "sized_4096"}
WPass  == {"none", "empty", "ascii", "unicode", "long"} \cup SizedPass         \* what write_private_key* is given
LPass  == {"none", "empty", "ascii", "unicode", "long", "wrong"} \cup SizedPass \cup {"prefix", "extension"}
Routes == {"filename", "file_obj", "from_path"}
Empty      == [type |-> "-", mat |-> "-", enc |-> "-"]           \* a zero-length file
Sealed(t, m, e) == [type |-> t, mat |-> m, enc |-> e]
NoFile     == [exists |-> FALSE, created |-> FALSE, mode |-> {}, content |-> Empty]

\* what a loader may answer: "ok" or a failure class (set-valued where two classes are both reasonable)
LoadOutcomes(content, lp) ==
  IF content = Empty THEN {"invalid"}
  ELSE IF content.enc = "none" \/ "load_ignores_password" \in Defects THEN {"ok"}
  ELSE IF lp = "none" THEN {"need_password"}
  ELSE IF lp = content.enc THEN {"ok"}
  ELSE IF lp = "empty" THEN {"need_password", "bad_password"}
  ELSE {"bad_password"}
\* exception classes by which the three loader routes signal the failure classes (conformance only)
FailureClass(route, o, content, lp) ==
  IF route = "from_path"
  THEN (IF o = "ok" /\ content.enc = "none" /\ lp # "none"                         \* superfluous passphrase
        THEN {"TypeError"} \cup (IF lp = "empty" THEN {"ok"} ELSE {})
        ELSE IF o = "need_password" THEN {"TypeError"} ELSE IF o = "ok" THEN {"ok"} ELSE {"ValueError"})
  ELSE CASE o = "ok" -> {"ok"} [] o = "need_password" -> {"PasswordRequiredException"}
         [] OTHER -> {"SSHException"}

(* -------------------------------- variables ------------------------------- *)
VARIABLES mode, pc,
          \* file machine
          ktype, target, umask, fs, wpass, wres, lpass, route, lres, lkey,
          \* compare machine
          ca, cb, eq, heq, fpeq, beq,
          \* history machine
          hfile, hist, kcache
fvars == <<ktype, target, umask, fs, wpass, wres, lpass, route, lres, lkey>>
cvars == <<ca, cb, eq, heq, fpeq, beq>>
hvars == <<hfile, hist, kcache>>
vars  == <<mode, pc, fvars, cvars, hvars>>

Init == /\ mode \in {"file", "cmp", "hist"} /\ pc = "start"
        /\ hfile = "-" /\ hist = <<>> /\ kcache = "-"
        /\ ktype = "-" /\ target = "-" /\ umask = "-" /\ fs = NoFile /\ wpass = "-" /\ wres = "-"
        /\ lpass = "-" /\ route = "-" /\ lres = "-" /\ lkey = "-"
        /\ ca = NoObj /\ cb = NoObj /\ eq = FALSE /\ heq = FALSE /\ fpeq = FALSE /\ beq = FALSE

(* ------------------------------ file machine ------------------------------ *)
Prepare(t, tg, um) ==
  /\ mode = "file" /\ pc = "start" /\ pc' = "prepared"
  /\ Writable(t) /\ tg \in Targets /\ um \in Umasks
  /\ (~Creates(tg) => um = "022")            \* the umask only matters when the call creates the file
  /\ ktype' = t /\ target' = tg /\ umask' = um
  /\ fs' = IF tg \in {"exists_0600", "exists_0644", "exists_0666"}
           THEN [exists |-> TRUE, created |-> FALSE, mode |-> ModeOf(tg), content |-> Sealed("-", "old", "none")]
           ELSE NoFile
  /\ UNCHANGED <<wpass, wres, lpass, route, lres, lkey, cvars, mode, hvars>>
UseBundled(t, e) ==
  /\ mode = "file" /\ pc = "start" /\ pc' = "written"
  /\ t \in Types /\ e \in {"none", "ascii"}
  /\ ktype' = t /\ target' = "bundled" /\ umask' = "022" /\ wpass' = e /\ wres' = "ok"
  /\ fs' = [exists |-> TRUE, created |-> FALSE, mode |-> ModeOf("exists_0644"), content |-> Sealed(t, "k1", e)]
  /\ UNCHANGED <<lpass, route, lres, lkey, cvars, mode, hvars>>
\* os.open(filename, O_WRONLY | O_TRUNC | O_CREAT, 0600)
W_OpenCreate ==
  /\ pc = "prepared" /\ pc' = "opened"
  /\ fs' = IF target = "file_obj" THEN fs
           ELSE IF Creates(target)
                THEN [exists |-> TRUE, created |-> TRUE, mode |-> CreateMode \ UmaskBits(umask), content |-> Empty]
                ELSE [fs EXCEPT !.content = Empty]
  /\ UNCHANGED <<ktype, target, umask, wpass, wres, lpass, route, lres, lkey, cvars, mode, hvars>>
\* key.private_bytes(PEM, TraditionalOpenSSL, NoEncryption | BestAvailableEncryption(passphrase))
W_Serialize(p) ==
  /\ pc = "opened" /\ pc' = "written"
  /\ p \in WPass /\ wpass' = p
  \* (the sized classes are crossed with the passphrase relation and the loader route, not with every target / type)
  /\ (p \in SizedPass => (target \in {"absent", "file_obj"} /\ umask = "022" /\ ktype \in {"rsa", "ecdsa256"}))
  /\ \/ /\ (p = "empty" \/ (p \in OverLimit /\ "clamp_passphrase_on_write" \notin Defects))     \* the writer may refuse
        /\ wres' = "refused" /\ fs' = (IF target = "file_obj" THEN fs ELSE [fs EXCEPT !.content = Empty])
     \/ /\ p # "empty"
        /\ wres' = "ok"
        /\ fs' = [fs EXCEPT !.exists = TRUE,
                            !.content = Sealed(ktype, "k1",
                                               IF "pass_ignored_on_write" \in Defects THEN "none"
                                               ELSE IF p \in OverLimit /\ "clamp_passphrase_on_write" \in Defects THEN "prefix"
                                               ELSE p)]
  /\ UNCHANGED <<ktype, target, umask, lpass, route, lres, lkey, cvars, mode, hvars>>
L_Load(lp, rt) ==
  /\ pc = "written" /\ pc' = "done"
  /\ lp \in LPass /\ rt \in Routes
  /\ (target = "file_obj" => rt = "file_obj")
  /\ (lp \in SizedPass => lp = wpass)
  /\ (lp \in {"prefix", "extension"} => wpass \in SizedPass)
  /\ (wpass \in SizedPass => lp \in {"none", wpass, "wrong", "prefix", "extension"})
  /\ lpass' = lp /\ route' = rt
  /\ \E o \in LoadOutcomes(fs.content, lp) :
        /\ lres' = o
        /\ lkey' = IF o = "ok" THEN "equal_private" ELSE "-"
  /\ UNCHANGED <<ktype, target, umask, fs, wpass, wres, cvars, mode, hvars>>

(* ----------------------------- compare machine ---------------------------- *)
EqModel(a, b)   == /\ Pub(a) = Pub(b) /\ ("eq_private" \in Defects => Private(a.kind) = Private(b.kind))
                   /\ (("eq_cert" \in Defects /\ Cert(a.kind) # "none" /\ Cert(b.kind) # "none")
                          => Cert(a.kind) = Cert(b.kind))
HashModel(a, b) == Pub(a) = Pub(b) /\ ("hash_private" \in Defects => Private(a.kind) = Private(b.kind))
Compare(a, b) ==
  /\ mode = "cmp" /\ pc = "start" /\ pc' = "cmp_done"
  /\ a \in KeyObjs /\ b \in KeyObjs
  /\ ca' = a /\ cb' = b
  /\ eq' = EqModel(a, b) /\ heq' = HashModel(a, b)
  /\ fpeq' = (Pub(a) = Pub(b)) /\ beq' = (Pub(a) = Pub(b))
  /\ UNCHANGED <<fvars, mode, hvars>>

(* ----------------------------- history machine ---------------------------- *)
\* the sealed file: OpenSSH-format files derive their key with bcrypt (the KDF a cache could sit in front of),
\* paramiko-written PEM files with the MD5 chain
HKinds == {"rsa_openssh", "ecdsa_openssh", "ed25519_openssh", "rsa_pem"}
UsesBcrypt(fk) == fk # "rsa_pem"
HPass  == {"none", "right", "wrong", "wrong2", "empty"}     \* "right" = the passphrase the file is sealed with
HClass == {"own", "other"}                                   \* loaded through the file's key class / another class
\* the passphrase the decryption is actually keyed with
Effective(fk, lp, cache) == IF "kdf_cache_ignores_passphrase" \in Defects /\ UsesBcrypt(fk) /\ cache # "-"
                            THEN cache ELSE lp
HOutcomes(fk, lp, lc, cache) ==
  IF lp = "none" THEN {"need_password"}
  ELSE IF lc = "other" THEN {"wrong_class", "need_password"}
  ELSE IF Effective(fk, lp, cache) = "right" THEN {"ok"}
  ELSE IF lp = "empty" THEN {"need_password", "bad_password"} ELSE {"bad_password"}
\* which passphrase a KDF memory would hold after this load (the first one derived for the file)
CacheAfter(fk, lp, cache) == IF UsesBcrypt(fk) /\ lp # "none" /\ cache = "-" THEN lp ELSE cache
HEntry(lp, lc, res, loaded) == [lp |-> lp, lc |-> lc, res |-> res, loaded |-> loaded]
H_Start(fk) ==
  /\ mode = "hist" /\ pc = "start" /\ pc' = "hist"
  /\ fk \in HKinds /\ hfile' = fk
  /\ UNCHANGED <<hist, kcache, fvars, cvars, mode>>
H_Load(lp, lc) ==
  /\ pc = "hist" /\ Len(hist) < MaxHist /\ pc' = "hist"
  /\ lp \in HPass /\ lc \in HClass
  /\ \E o \in HOutcomes(hfile, lp, lc, kcache) : hist' = Append(hist, HEntry(lp, lc, o, o = "ok"))
  /\ kcache' = CacheAfter(hfile, lp, kcache)
  /\ UNCHANGED <<hfile, fvars, cvars, mode>>

Next == \/ pc = "start" /\ mode = "file" /\ \E t \in Types, tg \in Targets, um \in Umasks : Prepare(t, tg, um)
        \/ pc = "start" /\ mode = "file" /\ \E t \in Types, e \in {"none", "ascii"} : UseBundled(t, e)
        \/ W_OpenCreate
        \/ pc = "opened" /\ \E p \in WPass : W_Serialize(p)
        \/ pc = "written" /\ \E lp \in LPass, rt \in Routes : L_Load(lp, rt)
        \/ pc = "start" /\ mode = "cmp" /\ \E a \in KeyObjs, b \in KeyObjs : Compare(a, b)
        \/ pc = "start" /\ mode = "hist" /\ \E fk \in HKinds : H_Start(fk)
        \/ pc = "hist" /\ \E lp \in HPass, lc \in HClass : H_Load(lp, lc)
Spec == Init /\ [][Next]_vars

(* ------------------------------ the property ------------------------------ *)
FileDone == pc = "done"
CmpDone  == pc = "cmp_done"
\* "A newly created key file is readable and writable only by its owner"
PrivateWhenCreated == fs.created => fs.mode \cap GroupOther = {}
\* "a private key written out loads back as an equal, signing-capable key"
\* (given the passphrase it was written with, or none if it was written without)
RoundTrip  == (FileDone /\ wres = "ok" /\ lpass = wpass) => (lres = "ok" /\ lkey = "equal_private")
\* "if written with a passphrase, cannot be loaded without it or with a wrong one"
PassNeeded == (FileDone /\ wres = "ok" /\ wpass # "none" /\ lpass # wpass) => lres # "ok"
SealSound  == RoundTrip /\ PassNeeded
\* whatever does load is the key that was written
NoOtherKey == (FileDone /\ lres = "ok") => lkey = "equal_private"
\* "Key equality and hashing depend only on the public key material";
\* "A key's public encoding parses back into an equal key with the same fingerprint"
EqOnlyPublic   == CmpDone => (eq <=> SamePublic(ca, cb))
HashOnlyPublic == (CmpDone /\ SamePublic(ca, cb)) => heq
PublicStable   == (CmpDone /\ SamePublic(ca, cb)) => (fpeq /\ beq)

\* the same two clauses for every load of a history: whatever was loaded before in this process,
\* "loads back ... [with its passphrase]" and "cannot be loaded without it or with a wrong one"
HistRight == \A i \in 1..Len(hist) : (hist[i].lc = "own" /\ hist[i].lp = "right") => hist[i].res = "ok"
HistWrong == \A i \in 1..Len(hist) : (hist[i].lc = "own" /\ hist[i].lp # "right") => ~hist[i].loaded
HistSound == HistRight /\ HistWrong
HistOther == \A i \in 1..Len(hist) : hist[i].lc = "other" => ~hist[i].loaded      \* (conformance)

\* conformance (what the code is seen to do beyond the statement)
ExactCreateMode  == fs.created => fs.mode = {"ur", "uw"} \ UmaskBits(umask)
ExistingModeKept == (fs.exists /\ ~fs.created /\ target # "bundled" /\ target # "file_obj") => fs.mode = ModeOf(target)
LoadInModel      == FileDone => lres \in LoadOutcomes(fs.content, lpass)
DistinctDiffer   == (CmpDone /\ ~SamePublic(ca, cb)) => (~fpeq /\ ~beq)

Emit == /\ (FileDone => PrintT(<<"FILE", ktype, target, umask, wpass, lpass, route, wres, lres>>))
        /\ (CmpDone => PrintT(<<"CMP", ca, cb, eq>>))
        /\ ((pc = "hist" /\ Len(hist) = MaxHist) => PrintT(<<"HIST", hfile, [i \in 1..Len(hist) |-> <<hist[i].lp, hist[i].lc>>]>>))
=============================================================================
