---------------------- MODULE UniversalReadline_Trace ----------------------
(* code -> spec for the 'U' mode part of C42: one trace = one BufferedFile opened  *)
(* in universal-newline mode over a scripted chunking stream, events = readline    *)
(* calls with the value returned and the cheap state afterwards (off = bytes the   *)
(* stream has delivered, rbuf = _rbuffer, cr = _at_trailing_cr).  Total verdict:   *)
(* the step for line l is always taken and judged by the clauses of                *)
(* UniversalReadline (P_) and by the model's conservation / flag invariants (C_).  *)
EXTENDS UniversalReadline, Json, IOUtils, TLCExt
Batch == JsonDeserialize(IOEnv.TRACE_FILE)
VARIABLES tid, l
tvars == <<tid, l, vars>>
T == Batch[tid]
TInit == /\ tid \in 1..Len(Batch) /\ l = 1
         /\ src = Batch[tid].src /\ off = 0 /\ rbuf = <<>> /\ line = <<>> /\ arg = 0 /\ cr = FALSE
         /\ eof = FALSE /\ pc = "idle" /\ ops = 0 /\ c0 = 0 /\ prevcut = FALSE /\ returned = <<>>
         /\ lastret = <<>> /\ bad = {}
TNext == /\ l <= Len(T.events) /\ l' = l + 1 /\ tid' = tid
         /\ LET e == T.events[l] IN
              /\ src' = src /\ off' = e.off /\ rbuf' = e.rbuf /\ cr' = e.cr /\ line' = <<>> /\ eof' = FALSE
              /\ pc' = "idle" /\ ops' = ops + 1 /\ arg' = e.n /\ lastret' = e.ret
              /\ c0' = off - Len(rbuf)
              /\ returned' = returned \o e.ret
              /\ prevcut' = IF e.ret = <<>> THEN prevcut ELSE (e.n >= 0 /\ Len(e.ret) = e.n)
              /\ bad' = SplitBad(src, off - Len(rbuf), e.off - Len(e.rbuf), e.ret, prevcut) \cup SizeBad(e.n, e.ret)
                        \cup (IF ~ContentConserved' THEN {"C_content_conservation"} ELSE {})
                        \cup (IF e.cr /\ e.rbuf # <<>> THEN {"C_pending_cr_with_buffer"} ELSE {})
TSpec == TInit /\ [][TNext]_tvars
Report == /\ (bad # {} => PrintT(<<"VERDICT", tid, l - 1, "readline", bad>>))
          /\ (l = Len(T.events) + 1 => PrintT(<<"DONE", tid>>))
=============================================================================
