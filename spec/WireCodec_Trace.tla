--------------------------- MODULE WireCodec_Trace ---------------------------
(* code -> spec for C39.  One trace = one real paramiko.Message written field by   *)
(* field with add_*, rewound (or re-created from its bytes) and read back with the  *)
(* matching get_*:                                                                  *)
(*   fields = the typed values written (numbers as magnitude byte lists)            *)
(*   ends   = len(message bytes) after each add_*,  wire = the message bytes         *)
(*   reads  = per get_*: val (what it returned, same record shape; t = "other" when  *)
(*            it has the wrong Python type), sofar_len = len(get_so_far()),           *)
(*            full / sofar / rest = the byte strings get_so_far() and                 *)
(*            get_remainder() returned (logged in full for messages up to 256 bytes;  *)
(*            above that the driver logs split_ok = (so_far + remainder == message))  *)
(*   aborted = "" | "write" | "read": an add_* / get_* raised or did not return        *)
(*   huge    = TRUE for messages with a field of a megabyte or more: the bytes stay in   *)
(*            the driver; fields / reads of such a field are summaries [t, len, digest]   *)
(*            (t = "hstring" | "htext" | "hlist"), writes = per add_* [seglen, header,     *)
(*            digest, seg (the bytes, for ordinary fields only)], split_ok is the          *)
(*            driver's comparison so_far + remainder == message (derived)                  *)
(* One step per add_*, one for the rewind, one per get_*; every step is judged by the *)
(* design spec's encoder, decoder and clause operators.  Total (never blocks).        *)
(* A verdict element is <<clause, index of the field>>.                               *)
EXTENDS WireCodec, Json, IOUtils, TLCExt
Batch == JsonDeserialize(IOEnv.TRACE_FILE)
VARIABLES tid, l, bad
tvars == <<tid, l, bad, vars>>
R == Batch[tid]
NF == Len(R.fields)
NR == Len(R.reads)

TInit == /\ tid \in 1..Len(Batch) /\ l = 1 /\ bad = {} /\ Init

Tag(S, k) == {<<c, k>> : c \in S}

\* add_* of field l: the spec's AddField with the bytes the code appended
TAdd == /\ l <= NF /\ ~R.huge
        /\ LET f == R.fields[l]
               seg == SubSeq(R.wire, (IF l = 1 THEN 0 ELSE R.ends[l - 1]) + 1, R.ends[l]) IN
             /\ fields' = Append(fields, f)
             /\ wire' = wire \o seg
             /\ ends' = Append(ends, R.ends[l])
             /\ bad' = bad \cup Tag(WriteClauses(f, seg), l)
        /\ l' = l + 1
        /\ UNCHANGED <<tid, phase, sofar, rest, got>>

TRewind == /\ l = NF + 1
           /\ phase' = "read" /\ sofar' = <<>> /\ rest' = wire
           /\ bad' = bad \cup (IF wire = R.wire THEN {} ELSE {<<"C_wire_not_sum_of_fields", 0>>})
                         \cup (IF R.aborted = "write" THEN {<<"P_write_failed", NF + 1>>} ELSE {})
           /\ l' = l + 1
           /\ UNCHANGED <<tid, fields, wire, ends, got>>

\* get_* number k: the spec's GetField, judged against what the code returned and where it stands
TGet == /\ l > NF + 1 /\ l <= NF + 1 + NR /\ ~R.huge
        /\ LET k == l - NF - 1
               rd == R.reads[k]
               f == fields[k]
               mine == Read(f.t, rest)                    \* what the spec's reader does from where the spec stands
               sf == IF rd.full THEN rd.sofar ELSE Take(wire, rd.sofar_len)
               rs == IF rd.full THEN rd.rest ELSE Drop(wire, rd.sofar_len) IN
             /\ got' = Append(got, rd.val)
             /\ sofar' = sofar \o Take(rest, mine.n)
             /\ rest' = Drop(rest, mine.n)
             /\ bad' = bad \cup Tag((IF rd.full THEN ReadClauses(f, rd.val, sf, rs, wire)
                                     ELSE ReadClauses(f, rd.val, sf, rs, wire) \cup (IF rd.split_ok THEN {} ELSE {"P_sofar_plus_remainder"}))
                                    \cup (IF rd.sofar_len = ends[k] THEN {} ELSE {"C_reader_position"})
                                    \cup (IF rd.full /\ (mine.val # rd.val \/ Len(sofar) + mine.n # rd.sofar_len)
                                          THEN {"C_differs_from_spec_reader"} ELSE {}), k)
        /\ l' = l + 1
        /\ UNCHANGED <<tid, fields, wire, ends, phase>>

\* the same two steps for a message with a huge field: lengths, headers and digests instead of bytes
THugeAdd == /\ l <= NF /\ R.huge
            /\ LET f == R.fields[l]
                   w == R.writes[l] IN
                 /\ fields' = Append(fields, f)
                 /\ ends' = Append(ends, R.ends[l])
                 /\ bad' = bad \cup Tag((IF f.t \in HugeTypes THEN HugeWriteClauses(f, w) ELSE WriteClauses(f, w.seg))
                                        \cup (IF R.ends[l] = (IF l = 1 THEN 0 ELSE R.ends[l - 1]) + w.seglen THEN {} ELSE {"C_wire_not_sum_of_fields"}), l)
            /\ l' = l + 1
            /\ UNCHANGED <<tid, wire, phase, sofar, rest, got>>

THugeGet == /\ l > NF + 1 /\ l <= NF + 1 + NR /\ R.huge
            /\ LET k == l - NF - 1
                   rd == R.reads[k]
                   f == fields[k] IN
                 /\ got' = Append(got, rd.val)
                 /\ bad' = bad \cup Tag((IF f.t \in HugeTypes THEN HugeReadClauses(f, rd.val)
                                         ELSE IF rd.val = f THEN {} ELSE {"P_roundtrip"})
                                        \cup (IF rd.split_ok THEN {} ELSE {"P_sofar_plus_remainder"})
                                        \cup (IF rd.sofar_len = ends[k] THEN {} ELSE {"C_reader_position"}), k)
            /\ l' = l + 1
            /\ UNCHANGED <<tid, fields, wire, ends, phase, sofar, rest>>

TEnd == /\ l = NF + NR + 2
        /\ bad' = bad \cup (IF R.aborted = "read" THEN {<<"P_read_failed", NR + 1>>} ELSE {})
                      \cup (IF R.aborted = "" /\ NR # NF THEN {<<"C_reads_missing", NR + 1>>} ELSE {})
        /\ l' = l + 1
        /\ UNCHANGED <<tid, vars>>

TNext == TAdd \/ THugeAdd \/ TRewind \/ TGet \/ THugeGet \/ TEnd
TSpec == TInit /\ [][TNext]_tvars
Report == l = NF + NR + 3 => /\ (bad # {} => PrintT(<<"VERDICT", tid, bad>>))
                             /\ PrintT(<<"DONE", tid>>)
=============================================================================
