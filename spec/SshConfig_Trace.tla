--------------------------- MODULE SshConfig_Trace ---------------------------
(* code -> spec for C40.  One record = one config rendered to text and parsed by the  *)
(* real SSHConfig:                                                                  *)
(*   cfg     the block structure the text was rendered from (see SshConfig.tla)      *)
(*   env     [luser, home, lhost, fqdn] of the machine the code ran on               *)
(*   gh      [raised : exception name or "", pats : Seq(Seq(char))] - get_hostnames() *)
(*   lookups Seq([host : Seq(char), raised, opts : Seq([k, vals : Seq(Seq(char))])])  *)
(*           - the SSHConfigDict of lookup(host) in dict order; None = <<"<none>">>   *)
(* P_ clauses are the statement of C40 (both readings of "first applying block", both  *)
(* documented meanings of %u; ambiguous Match configs are not judged); C_ clauses      *)
(* compare with the walk of the design spec, pinned and repaired.                      *)
EXTENDS SshConfig, Json, IOUtils, TLCExt
Batch == JsonDeserialize(IOEnv.TRACE_FILE)
VARIABLES tid, l, bad
tvars == <<tid, l, bad, vars>>
R == Batch[tid]

FxOf(n, o) == [none_overrides |-> n, h_in_dict_order |-> o, snapshot_filter |-> FALSE, keep_block_repeats |-> TRUE,
               match_host_final_only |-> FALSE]
\* the walk the code is expected to follow: repeats inside a block are kept unless the strict reading is on
CodeFx == [Good EXCEPT !.keep_block_repeats = ~StrictFirstBlock]
ObsVals(d, k) == IF Has(d, k) THEN Get(d, k) ELSE <<>>
\* expected against observed values of one option; a `none` ProxyCommand may also be left out of the result
Agrees(exp, obs) == ValsMatch(exp, obs) \/ (exp = <<NoneVal>> /\ obs = <<>>)
SameAs(model, obs, keys) == \A k \in keys : Agrees(ObsVals(model, k), ObsVals(obs, k))

ValueClauses(c, hn, env, obs) ==
    LET ds == Dicts(c)
        pt == LookupParts(c, DictsFx(c, CodeFx), hn, env, CodeFx)                      \* repaired walk, once
        pp == LookupParts(c, DictsFx(c, FxOf(TRUE, TRUE)), hn, env, FxOf(TRUE, TRUE))    \* pinned walk, once
        lens == IF StrictFirstBlock THEN {FALSE} ELSE BOOLEAN
        a1 == pt.a1
        a2 == pt.a2
        K  == AllKeysOf(ds)
        okWith(k, L) == \E tp \in BOOLEAN, ur \in BOOLEAN, len \in L :
                            Agrees(DeclExpanded(a1, a2, ds, hn, env, k, tp, ur, len), ObsVals(obs, k))
        ok(k) == okWith(k, lens)
        explained(k, fx) == \E ur \in BOOLEAN : Agrees(ObsVals(Lookup(c, hn, env, fx, ur), k), ObsVals(obs, k))
        why(k) == IF StrictFirstBlock /\ explained(k, Lax) THEN "P_value:identityfile_repeat_inside_first_contributing_block_kept"
                  ELSE IF explained(k, [Lax EXCEPT !.snapshot_filter = TRUE]) THEN "P_value:identityfile_repeat_inside_later_block_kept"
                  ELSE IF explained(k, FxOf(TRUE, FALSE)) THEN "P_value:proxycommand_none_overrides_earlier_value_in_block"
                  ELSE IF explained(k, FxOf(FALSE, TRUE)) THEN "P_value:percent_h_expanded_before_hostname"
                  ELSE IF explained(k, FxOf(TRUE, TRUE)) THEN "P_value:none_override_and_percent_h_order"
                  ELSE "P_value:unexplained"
    IN  (IF StableFrom(a1, a2, c) THEN {<<why(k), k>> : k \in {x \in K : ~ok(x)}}
                                  ELSE {<<"C_ambiguous_match_block_not_judged", "">>})
        \cup {<<"C_identityfile_repeat_inside_first_contributing_block_kept", k>> :
                 k \in {x \in K \cap ListKeys : StableFrom(a1, a2, c) /\ ok(x) /\ ~okWith(x, {FALSE})}}
        \cup {<<"P_unexpected_key", k>> : k \in KeysOf(obs) \ K}
        \cup (IF SameAs(ExpandAll(pp.raw, hn, env, FxOf(TRUE, TRUE), FALSE), obs, K \cup KeysOf(obs)) THEN {}
              ELSE {<<"C_differs_from_pinned_walk", "">>})
        \cup (IF SameAs(ExpandAll(pt.raw, hn, env, CodeFx, FALSE), obs, K \cup KeysOf(obs)) THEN {}
              ELSE {<<"C_differs_from_repaired_walk", "">>})

HostnamesClauses(c, gh) ==
    IF gh.raised # ""
    THEN {<<IF gh.raised = "KeyError" /\ (\E b \in 1..Len(c) : c[b].kind = "match")
            THEN "P_get_hostnames_raises_on_match_block" ELSE "P_get_hostnames_raises", "">>}
    ELSE (IF HostPatterns(c) \subseteq Range(gh.pats) THEN {} ELSE {<<"P_get_hostnames_misses_pattern", "">>})
         \cup (IF Range(gh.pats) = HostPatterns(c) \cup {<<"*">>} THEN {} ELSE {<<"C_get_hostnames_differs", "">>})

TInit == /\ tid \in 1..Len(Batch) /\ l = 1 /\ bad = {}
         /\ cfg = <<>> /\ host = <<>> /\ pc = "pass1" /\ i = 1 /\ opts = <<>>
TNext == /\ l <= Len(R.lookups) /\ l' = l + 1 /\ tid' = tid
         /\ LET q == R.lookups[l] IN
              /\ cfg' = R.cfg /\ host' = q.host /\ pc' = "done" /\ i' = Len(R.cfg) + 1 /\ opts' = q.opts
              /\ bad' = (IF l = 1 THEN HostnamesClauses(R.cfg, R.gh) ELSE {})
                        \cup (IF q.raised # "" THEN {<<"P_lookup_raises", q.raised>>}
                              ELSE ValueClauses(R.cfg, q.host, R.env, q.opts))
TSpec == TInit /\ [][TNext]_tvars
\* one short line per print (ToString): the run may then use several workers
Report == /\ (bad # {} => PrintT(<<"VERDICT", ToString(<<tid, l - 1, bad>>)>>))
          /\ (l = Len(R.lookups) + 1 => PrintT(<<"DONE", tid>>))
=============================================================================
