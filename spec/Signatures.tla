----------------------------- MODULE Signatures -----------------------------
(* C35.  Signing and verification with SSH key objects (paramiko/rsakey.py,       *)
(* ecdsakey.py, ed25519key.py: sign_ssh_data / verify_ssh_sig).                   *)
(*                                                                                 *)
(* Cryptography is symbolic: a signature VALUE is the free term                    *)
(* Sig(type, material, hash, data); it verifies under exactly the key material,    *)
(* hash and data it was made with.  What is modelled in detail is everything       *)
(* around the primitive: which key objects exist (type x material x provenance),   *)
(* the two-field wire form  string(algorithm name) || string(blob),  the tamper    *)
(* classes of the property's quantifier, and the decision points of                *)
(* verify_ssh_sig in the order the code takes them:                                *)
(*    V_GetAlgText -> V_CheckAlgorithm -> V_UseVerifyingKey -> V_DecodeBlob        *)
(*    -> V_CryptoVerify.                                                           *)
(* `Defects` re-introduces what the pinned tree does at four of those points       *)
(* (and four artificial mutations, used as sensitivity runs); Defects = {} is      *)
(* the property as stated.                                                         *)
EXTENDS Naturals, FiniteSets, TLC

CONSTANTS Defects,        \* defects / mutations present in the modelled implementation ({} = the property as stated)
          ForeignNames    \* algorithm names of OTHER key families tried as replacement names (all of them in the
                          \* thorough tier, one per family in the quick tier; same-family names are always tried)

KnownDefects == {"ed_no_verify_key",   \* Ed25519Key(filename=..)/(file_obj=..) keeps _verifying_key = None
                 "ed_sig_length",      \* nacl VerifyKey.verify raises ValueError unless the blob has 64 bytes
                 "ecdsa_negative",     \* encode_dss_signature raises ValueError for a negative r or s
                 "alg_not_text"}       \* Message.get_text raises UnicodeDecodeError on a non-UTF-8 name
Mutations    == {"mut_skip_alg_check", "mut_ignore_data", "mut_ignore_hash",
                 "mut_strip_zeros",    \* RSA verifier strips all leading zero octets and re-pads (seeded change C35a)
                 "mut_unsigned_inner", \* ECDSA verifier reads r, s as unsigned octet strings (seeded change C35c)
                 "mut_concat_verify"}  \* Ed25519 verifier checks blob || data as one string, so the boundary between
                                       \* signature and data is "octet 64 of the concatenation" (seeded change C35b)
ASSUME Defects \subseteq KnownDefects \cup Mutations

(* ------------------------------ key objects ------------------------------ *)
Types     == {"rsa", "ecdsa256", "ecdsa384", "ecdsa521", "ed25519"}
Family(t) == IF t = "rsa" THEN "rsa" ELSE IF t = "ed25519" THEN "ed25519" ELSE "ecdsa"
Provs     == {"generated", "file_pem", "file_openssh", "public_bytes"}
FileProvs == {"file_pem", "file_openssh"}
Mats      == {"k1", "k2"}                  \* two independent key pairs per type
\* paramiko cannot generate Ed25519 keys and reads them only from OpenSSH-format files
Available(t, p) == (t = "ed25519") => (p \in {"file_openssh", "public_bytes"})
CanSign(p)      == p # "public_bytes"
Key(t, m, p)    == [type |-> t, mat |-> m, prov |-> p]
NoKey           == Key("-", "-", "-")
Keys      == {k \in {Key(t, m, p) : t \in Types, m \in Mats, p \in Provs} : Available(k.type, k.prov)}
Signers   == {k \in Keys : k.mat = "k1" /\ CanSign(k.prov)}

(* --------------------------- algorithm names ----------------------------- *)
CertOf == [x \in {"ssh-rsa", "rsa-sha2-256", "rsa-sha2-512", "ecdsa-sha2-nistp256", "ecdsa-sha2-nistp384",
                  "ecdsa-sha2-nistp521", "ssh-ed25519"} |->
             CASE x = "ssh-rsa"             -> "ssh-rsa-cert-v01@openssh.com"
               [] x = "rsa-sha2-256"        -> "rsa-sha2-256-cert-v01@openssh.com"
               [] x = "rsa-sha2-512"        -> "rsa-sha2-512-cert-v01@openssh.com"
               [] x = "ecdsa-sha2-nistp256" -> "ecdsa-sha2-nistp256-cert-v01@openssh.com"
               [] x = "ecdsa-sha2-nistp384" -> "ecdsa-sha2-nistp384-cert-v01@openssh.com"
               [] x = "ecdsa-sha2-nistp521" -> "ecdsa-sha2-nistp521-cert-v01@openssh.com"
               [] x = "ssh-ed25519"         -> "ssh-ed25519-cert-v01@openssh.com"]
BaseNames == DOMAIN CertOf
CertNames == {CertOf[x] : x \in BaseNames}
AllNames  == BaseNames \cup CertNames
RsaNames  == {"ssh-rsa", "rsa-sha2-256", "rsa-sha2-512"}
OwnName(t) == CASE t = "ecdsa256" -> "ecdsa-sha2-nistp256" [] t = "ecdsa384" -> "ecdsa-sha2-nistp384"
                [] t = "ecdsa521" -> "ecdsa-sha2-nistp521" [] t = "ed25519" -> "ssh-ed25519" [] OTHER -> "ssh-rsa"
SignAlgs(t) == IF t = "rsa" THEN RsaNames ELSE {OwnName(t)}
FamilyNames(t) == LET base == CASE Family(t) = "rsa" -> RsaNames
                                [] Family(t) = "ecdsa" -> {"ecdsa-sha2-nistp256", "ecdsa-sha2-nistp384", "ecdsa-sha2-nistp521"}
                                [] OTHER -> {"ssh-ed25519"}
                  IN base \cup {CertOf[x] : x \in base}
FixedHash(t) == CASE t = "ecdsa256" -> "sha256" [] t = "ecdsa384" -> "sha384" [] t = "ecdsa521" -> "sha512"
                  [] t = "ed25519" -> "ed25519" [] OTHER -> "sha1"
RsaHash(n) == CASE n \in {"ssh-rsa", "ssh-rsa-cert-v01@openssh.com"}           -> "sha1"
                [] n \in {"rsa-sha2-256", "rsa-sha2-256-cert-v01@openssh.com"} -> "sha256"
                [] n \in {"rsa-sha2-512", "rsa-sha2-512-cert-v01@openssh.com"} -> "sha512"
                [] OTHER -> "reject"
\* hash a signer of type t uses for algorithm name n
SignHash(t, n) == IF t = "rsa" THEN RsaHash(n) ELSE FixedHash(t)
\* hash a verifier of type t will use when the wire names algorithm n ("reject": name not acceptable)
VerifierHash(t, n) == IF t = "rsa" THEN RsaHash(n) ELSE IF n = OwnName(t) THEN FixedHash(t) ELSE "reject"

(* ------------------------------- the wire -------------------------------- *)
\* field 1: the algorithm name as it can be read back
NameF(n)  == [k |-> "name", v |-> n]
UnknownF  == [k |-> "unknown", v |-> "-"]      \* decodable text that names no algorithm (also: absent -> "")
NotTextF  == [k |-> "not_text", v |-> "-"]     \* bytes that are not UTF-8
\* field 2: the blob
Sig(t, m, h, d) == [k |-> "sig", type |-> t, mat |-> m, hash |-> h, data |-> d, why |-> "-"]
AliasOf(b)      == [b EXCEPT !.k = "alias"]    \* same signature VALUE, other encoding of it
Garbage         == [k |-> "garbage", type |-> "-", mat |-> "-", hash |-> "-", data |-> "-", why |-> "-"]
Malformed(why)  == [k |-> "malformed", type |-> "-", mat |-> "-", hash |-> "-", data |-> "-", why |-> why]
NoWire          == [alg |-> UnknownF, blob |-> Garbage]
GenuineWire(s, a) == [alg |-> NameF(a), blob |-> Sig(s.type, s.mat, SignHash(s.type, a), "d1")]

(* ----------------------------- tamper classes ---------------------------- *)
T(c)       == [cls |-> c, arg |-> "-"]
TAlg(n)    == [cls |-> "alg_known", arg |-> n]
NoTamper   == T("none")
\* "blob_zero_prepended": the genuine signature string with 0x00 octets in FRONT (over-long, length field
\* adjusted; "mpint-style" re-encoding).  Not the signature the key produced and not of the modulus / 64-octet
\* length: an altered signature that must be rejected.  (The SHORTER form - leading zero octets dropped - is the
\* interop alias "blob_alias", for which only an answer is demanded.)
Whys(t)    == CASE Family(t) = "rsa"     -> {"blob_empty", "blob_short", "blob_long", "blob_zero_prepended"}
                [] Family(t) = "ed25519" -> {"blob_empty", "blob_short", "blob_long", "blob_zero_prepended"}
                \* "inner_sign_dropped": r or s has its top bit set and the 0x00 sign octet RFC 4251 requires in front
                \* of it is deleted (length fields adjusted): read as an mpint the integer is now NEGATIVE - a changed
                \* value.  (Mirror image of the answer-only alias "non-minimal mpint", which ADDS zero octets.)
                [] OTHER -> {"blob_empty", "inner_negative", "inner_sign_dropped", "inner_zero", "inner_oversized",
                             "inner_truncated"}
HasAlias(t) == Family(t) # "ed25519"     \* RSA: leading zero bytes dropped; ECDSA: non-minimal mpint / trailing bytes
Tampers(t, a) == {T(c) : c \in {"none", "alg_unknown", "alg_not_text", "blob_garbage", "frame", "trunc"}}
                 \cup {T(c) : c \in Whys(t)}
                 \cup {TAlg(n) : n \in (FamilyNames(t) \cup (ForeignNames \cap AllNames)) \ {a}}
                 \cup (IF HasAlias(t) THEN {T("blob_alias")} ELSE {})
                 \cup {T("shift_to_sig"), T("shift_to_data")}
\* COORDINATED tampers: octets are moved across the boundary between the signature blob and the verified data.
\*   shift_to_sig : blob = S || M[..k],  data = M[k+1..]   ("d1_rest")
\*   shift_to_data: blob = S[..n-k],     data = S[n-k+1..] || M   ("tail_d1")
\* Both sides differ from what was signed (other data AND an altered blob), each in step with the other.
DataFor(tm) == CASE tm.cls = "shift_to_sig" -> {"d1_rest"} [] tm.cls = "shift_to_data" -> {"tail_d1"}
                 [] OTHER -> {"d1", "d2"}
DataTokens  == {"d1", "d2", "d1_rest", "tail_d1"}
\* what a cut of the byte string can leave behind (the reader pads short reads with zeros or stops early)
TruncBlobs(t) == {Garbage, Malformed("blob_empty")}
                 \cup (IF Family(t) = "ecdsa" THEN {Malformed("inner_truncated"), Malformed("inner_zero")}
                       ELSE {Malformed("blob_short")})
\* the wires a tamper of class tm can turn the genuine wire w (made by a signer of type t) into
Refine(tm, w, t) ==
  CASE tm.cls = "none"         -> {w}
    [] tm.cls = "alg_known"    -> {[w EXCEPT !.alg = NameF(tm.arg)]}
    [] tm.cls = "alg_unknown"  -> {[w EXCEPT !.alg = UnknownF]}
    [] tm.cls = "alg_not_text" -> {[w EXCEPT !.alg = NotTextF]}
    [] tm.cls = "blob_garbage" -> {[w EXCEPT !.blob = Garbage]}
    [] tm.cls = "blob_alias"   -> {[w EXCEPT !.blob = AliasOf(w.blob)]}
    \* (keeps the value it was made from, so that a verifier that "normalises" it can be modelled)
    \* S || M[..k]: over-long for RSA / Ed25519 (keeps the value it was made from, see mut_concat_verify); for ECDSA
    \* the extra octets follow s inside the blob, which leaves the value (r, s) as it was
    [] tm.cls = "shift_to_sig"  -> {[w EXCEPT !.blob = IF Family(t) = "ecdsa" THEN AliasOf(w.blob)
                                                       ELSE [w.blob EXCEPT !.k = "malformed", !.why = "blob_long_by_data"]]}
    [] tm.cls = "shift_to_data" -> {[w EXCEPT !.blob = IF Family(t) = "ecdsa" THEN Malformed("inner_truncated")
                                                       ELSE [w.blob EXCEPT !.k = "malformed", !.why = "blob_short_by_data"]]}
    [] tm.cls = "inner_sign_dropped" -> {[w EXCEPT !.blob = [w.blob EXCEPT !.k = "malformed", !.why = "inner_sign_dropped"]]}
    [] tm.cls = "blob_zero_prepended" -> {[w EXCEPT !.blob = [w.blob EXCEPT !.k = "malformed", !.why = "blob_zero_prepended"]]}
    [] tm.cls = "trunc"        -> {[w EXCEPT !.alg = UnknownF]} \cup {[w EXCEPT !.blob = b] : b \in TruncBlobs(t)}
    \* a corrupted length prefix re-frames the fields: anything a cut can do, a longer blob, or (length
    \* larger than what is there) the very same value again
    [] tm.cls = "frame"        -> {[w EXCEPT !.alg = UnknownF], [w EXCEPT !.alg = NotTextF]}
                                  \cup {[w EXCEPT !.blob = b] : b \in TruncBlobs(t)}
                                  \cup {[w EXCEPT !.blob = AliasOf(w.blob)]}
                                  \cup (IF Family(t) = "ecdsa" THEN {[w EXCEPT !.blob = Malformed("inner_oversized")]}
                                        ELSE {[w EXCEPT !.blob = Malformed("blob_long")]})
    [] OTHER                   -> {[w EXCEPT !.blob = Malformed(tm.cls)]}

\* tampers that may leave the signature VALUE intact (the statement demands nothing but an answer for them)
IsAliasName(tm, a) == tm.cls = "alg_known" /\ tm.arg = CertOf[a]
Neutral(tm, a)     == tm.cls \in {"blob_alias", "frame"} \/ IsAliasName(tm, a)

(* ---------------- decision points of verify_ssh_sig (pure) --------------- *)
\* each returns "go" or the answer
S_GetAlgText(w)  == IF w.alg.k = "not_text"
                    THEN (IF "alg_not_text" \in Defects THEN "UnicodeDecodeError" ELSE "false") ELSE "go"
WireName(w)      == IF w.alg.k = "name" THEN w.alg.v ELSE "?"
UseHash(v, w)    == LET h == VerifierHash(v.type, WireName(w)) IN
                    IF h = "reject" /\ "mut_skip_alg_check" \in Defects THEN FixedHash(v.type) ELSE h
S_CheckAlg(v, w) == IF UseHash(v, w) = "reject" THEN "false" ELSE "go"
S_UseVerifyingKey(v) == IF v.type = "ed25519" /\ v.prov \in FileProvs /\ "ed_no_verify_key" \in Defects
                        THEN "AttributeError" ELSE "go"
Normalised(v, w) == /\ "mut_strip_zeros" \in Defects /\ Family(v.type) = "rsa"
                    /\ w.blob.k = "malformed" /\ w.blob.why = "blob_zero_prepended"
Unsigned(v, w) == /\ "mut_unsigned_inner" \in Defects /\ Family(v.type) = "ecdsa"
                  /\ w.blob.k = "malformed" /\ w.blob.why = "inner_sign_dropped"
Concatenated(v, w, d) == /\ "mut_concat_verify" \in Defects /\ Family(v.type) = "ed25519"
                         /\ w.blob.k = "malformed"
                         /\ \/ (w.blob.why = "blob_long_by_data" /\ d = "d1_rest")
                            \/ (w.blob.why = "blob_short_by_data" /\ d = "tail_d1")
S_DecodeBlob(v, w, d) ==
  IF w.blob.k # "malformed" \/ Normalised(v, w) \/ Unsigned(v, w) \/ Concatenated(v, w, d) THEN "go"
  ELSE IF Family(v.type) = "ed25519" /\ "ed_sig_length" \in Defects THEN "ValueError"
  ELSE IF Family(v.type) = "ecdsa" /\ w.blob.why \in {"inner_negative", "inner_sign_dropped"}
          /\ "ecdsa_negative" \in Defects THEN "ValueError"
  ELSE "false"
S_Crypto(v, w, d) ==
  IF /\ (w.blob.k \in {"sig", "alias"} \/ Normalised(v, w) \/ Unsigned(v, w) \/ Concatenated(v, w, d))
     /\ w.blob.type = v.type /\ w.blob.mat = v.mat
     /\ (w.blob.hash = UseHash(v, w) \/ "mut_ignore_hash" \in Defects)
     /\ (w.blob.data = d \/ "mut_ignore_data" \in Defects \/ Concatenated(v, w, d))
  THEN "true" ELSE "false"
First(seq4) == IF seq4[1] # "go" THEN seq4[1] ELSE IF seq4[2] # "go" THEN seq4[2]
               ELSE IF seq4[3] # "go" THEN seq4[3] ELSE IF seq4[4] # "go" THEN seq4[4] ELSE seq4[5]
\* the whole of verify_ssh_sig as a function
Outcome(v, w, d) == First(<<S_GetAlgText(w), S_CheckAlg(v, w), S_UseVerifyingKey(v), S_DecodeBlob(v, w, d),
                            S_Crypto(v, w, d)>>)

(* ----------------------------- state machine ----------------------------- *)
VARIABLES signer, verifier, alg, tamper, wire, data, pc, result
vars == <<signer, verifier, alg, tamper, wire, data, pc, result>>

Init == /\ signer = NoKey /\ verifier = NoKey /\ alg = "-" /\ tamper = NoTamper /\ wire = NoWire
        /\ data = "-" /\ pc = "start" /\ result = "-"

ObtainKeys(s, v) ==
  /\ pc = "start" /\ pc' = "keys"
  /\ s \in Signers /\ v \in Keys
  /\ (v.type # s.type => v.mat = "k1")        \* "a different key" of another type: one is enough
  /\ signer' = s /\ verifier' = v
  /\ UNCHANGED <<alg, tamper, wire, data, result>>
SignData(a) ==
  /\ pc = "keys" /\ pc' = "signed"
  /\ a \in SignAlgs(signer.type)
  /\ alg' = a /\ wire' = GenuineWire(signer, a)
  /\ UNCHANGED <<signer, verifier, tamper, data, result>>
TamperWire(tm) ==
  /\ pc = "signed" /\ pc' = "wire"
  /\ tm \in Tampers(signer.type, alg)
  /\ (verifier.type # signer.type => tm = NoTamper)
  /\ tamper' = tm
  /\ wire' \in Refine(tm, wire, signer.type)
  /\ UNCHANGED <<signer, verifier, alg, data, result>>
PresentData(d) ==
  /\ pc = "wire" /\ pc' = "v_alg"
  /\ d \in DataFor(tamper)
  /\ (verifier.type # signer.type => d = "d1")
  /\ data' = d
  /\ UNCHANGED <<signer, verifier, alg, tamper, wire, result>>
Decide(here, next, ans) ==
  /\ pc = here
  /\ IF ans = "go" THEN pc' = next /\ result' = result ELSE pc' = "done" /\ result' = ans
  /\ UNCHANGED <<signer, verifier, alg, tamper, wire, data>>
V_GetAlgText      == Decide("v_alg", "v_check", S_GetAlgText(wire))
V_CheckAlgorithm  == Decide("v_check", "v_key", S_CheckAlg(verifier, wire))
V_UseVerifyingKey == Decide("v_key", "v_blob", S_UseVerifyingKey(verifier))
V_DecodeBlob      == Decide("v_blob", "v_crypto", S_DecodeBlob(verifier, wire, data))
V_CryptoVerify    == Decide("v_crypto", "done", S_Crypto(verifier, wire, data))

\* (the pc test comes first so that TLC does not enumerate the quantifiers of disabled actions)
Next == \/ pc = "start"  /\ \E s \in Signers, v \in Keys : ObtainKeys(s, v)
        \/ pc = "keys"   /\ \E a \in SignAlgs(signer.type) : SignData(a)
        \/ pc = "signed" /\ \E tm \in Tampers(signer.type, alg) : TamperWire(tm)
        \/ pc = "wire"   /\ \E d \in DataTokens : PresentData(d)
        \/ V_GetAlgText \/ V_CheckAlgorithm \/ V_UseVerifyingKey \/ V_DecodeBlob \/ V_CryptoVerify
Spec == Init /\ [][Next]_vars

(* ------------------------------ the property ----------------------------- *)
Done     == pc = "done"
SameKey(s, v)             == v.type = s.type /\ v.mat = s.mat
MustAccept(s, v, a, tm, d) == SameKey(s, v) /\ d = "d1" /\ tm.cls = "none"
MustReject(s, v, a, tm, d) == ~SameKey(s, v) \/ d # "d1" \/ (tm.cls # "none" /\ ~Neutral(tm, a))
Possible(s, v, a, tm, d)   == {Outcome(v, w, d) : w \in Refine(tm, GenuineWire(s, a), s.type)}

\* "Verification always answers true or false and never raises"
Total          == Done => result \in {"true", "false"}
\* "a signature it produces verifies under the same key and under its public counterpart"
AcceptsGenuine == (Done /\ MustAccept(signer, verifier, alg, tamper, data)) => result # "false"
\* "Verification fails for any other data, any altered signature, or a different key"
RejectsForged  == (Done /\ MustReject(signer, verifier, alg, tamper, data)) => result # "true"
\* the staged machine and the one-shot function agree (conformance of the model with itself)
InModel        == Done => result \in Possible(signer, verifier, alg, tamper, data)

\* spec -> code: one CASE per terminal state
Emit == Done => PrintT(<<"CASE", signer, verifier, alg, tamper, data, wire.alg.k, wire.blob.k, wire.blob.why, result>>)
=============================================================================
