------------------------------- MODULE Banner -------------------------------
(* X04 (beyond the listed properties).  The protocol version exchange as the       *)
(* receiving side of Transport._check_banner + Packetizer.readline sees it          *)
(* (paramiko/transport.py, paramiko/packet.py): lines are read until one starts     *)
(* with "SSH-" (at most Limit lines in all), then the identification string is       *)
(* taken apart.  One step per line read; the environment chooses the kind of line.   *)
(*   junk        a line that does not start with "SSH-" (pre-banner text, RFC 4253 4.2) *)
(*   v20 / v199  "SSH-2.0-soft" / "SSH-1.99-soft"                                     *)
(*   v20c        "SSH-2.0-soft comment text" (a comment after the first space)        *)
(*   v15         "SSH-1.5-soft"          (a version this library does not speak)      *)
(*   noseg       "SSH-2.0"               (no software segment)                        *)
(*   undec       bytes that are not UTF-8 followed by a newline                       *)
(*   eof / quiet the peer closes / sends nothing until the timeout                    *)
EXTENDS Naturals, Sequences, TLC
CONSTANTS Limit,        \* 100 in the code
          Prefixes,     \* numbers of junk lines the peer may send first, e.g. {0, 1, Limit - 1, Limit}
          MaxTail,      \* further lines after the prefix
          OffByOne      \* mutation: the loop reads Limit + 1 lines
Kinds == {"junk", "v20", "v199", "v20c", "v15", "noseg", "undec", "eof", "quiet"}
VARIABLES pre, tail, n, status
vars == <<pre, tail, n, status>>
\* status: "reading" | "accepted" | "indecipherable" | "invalid" | "incompatible" | "read_error"
Init == pre \in Prefixes /\ tail = <<>> /\ n = pre /\ status = IF pre >= Limit + (IF OffByOne THEN 1 ELSE 0) THEN "indecipherable" ELSE "reading"
IsBanner(k) == k \in {"v20", "v199", "v20c", "v15", "noseg"}
Verdict(k) == CASE k \in {"v20", "v199", "v20c"} -> "accepted" [] k = "v15" -> "incompatible" [] OTHER -> "invalid"
Read(k) == /\ status = "reading" /\ Len(tail) < MaxTail
           /\ tail' = Append(tail, k) /\ n' = n + 1
           /\ status' = IF k \in {"undec", "eof", "quiet"} THEN "read_error"
                        ELSE IF IsBanner(k) THEN Verdict(k)
                        ELSE IF n + 1 >= Limit + (IF OffByOne THEN 1 ELSE 0) THEN "indecipherable" ELSE "reading"
           /\ UNCHANGED pre
Next == \E k \in Kinds : Read(k)
Spec == Init /\ [][Next]_vars
(* what a peer relies on *)
\* a session is accepted only on a 2.0 / 1.99 identification string, preceded by fewer than Limit other lines
AcceptedOnlyOnBanner == status = "accepted" => /\ tail # <<>> /\ tail[Len(tail)] \in {"v20", "v199", "v20c"}
                                                 /\ \A i \in 1..(Len(tail) - 1) : tail[i] = "junk"
                                                 /\ n <= Limit
\* pre-banner text is tolerated (RFC 4253 section 4.2) up to the limit
JunkTolerated == (status = "reading" /\ tail # <<>>) => (\A i \in 1..Len(tail) : tail[i] = "junk") /\ n < Limit
\* exactly Limit lines are looked at
LimitRespected == n <= Limit
Emit == (status # "reading" \/ Len(tail) = MaxTail) => PrintT(<<"CASE", pre, tail, status>>)
=============================================================================
