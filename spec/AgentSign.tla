------------------------------ MODULE AgentSign ------------------------------
(* C45.  AgentKey.sign_ssh_data over AgentSSH._send_message (paramiko/agent.py).  *)
(*                                                                                *)
(* One signing round trip, at the grain of its decision points:                   *)
(*   BuildRequest - sign_ssh_data assembles SSH2_AGENTC_SIGN_REQUEST: key blob,    *)
(*                  data, flags chosen from the caller's algorithm name            *)
(*   Send         - _send_message frames it and writes it to the agent connection  *)
(*   AgentReply   - the agent answers with a packet of some type (environment)      *)
(*   Deliver      - a SIGN_RESPONSE yields its signature, anything else raises      *)
(* Byte strings are abstracted to identities: the key blob the agent listed for    *)
(* the key ("listed"), the plain public key inside a certificate ("plain"), the     *)
(* caller's data ("data"), the signature the agent produced ("sig"); "other" is     *)
(* any different byte string.  The driver supplies those identities by equality.    *)
EXTENDS Naturals, Sequences, FiniteSets, TLC

CONSTANTS Algs,        \* algorithm names a caller may pass; "<none>" stands for algorithm=None
          KeyKinds,    \* kinds of key an agent may list
          CertKinds,   \* the kinds that are certificates (listed blob # plain public key blob)
          ReplyTypes,  \* packet types the agent may answer with
          Mutation     \* "none" = the design; other values re-introduce a defect (sensitivity runs)

SIGN_REQUEST  == 13
SIGN_RESPONSE == 14
SHA256_FLAG   == 2
SHA512_FLAG   == 4
CertSuffix == "-cert-v01@openssh.com"
Sha256Names == {"rsa-sha2-256", "rsa-sha2-256" \o CertSuffix}
Sha512Names == {"rsa-sha2-512", "rsa-sha2-512" \o CertSuffix}

\* the flags word the statement demands for an algorithm name
FlagFor(a) == IF a \in Sha256Names THEN SHA256_FLAG ELSE IF a \in Sha512Names THEN SHA512_FLAG ELSE 0

VARIABLES alg, key, rtype,   \* the case: caller's algorithm, key kind, type of the agent's answer
          pc,                \* "build" | "send" | "await" | "deliver" | "done"
          req,               \* the request: [type, blob, data, flags]  (NoReq before it exists)
          wire,              \* requests written to the agent connection (Seq)
          outcome            \* [kind |-> "pending" | "returned" | "raised", sig |-> "sig" | "other" | "none"]
vars == <<alg, key, rtype, pc, req, wire, outcome>>

NoReq == [type |-> 0, blob |-> "other", data |-> "other", flags |-> 0]
Pending == [kind |-> "pending", sig |-> "none"]

(* ---- the property, clause by clause ------------------------------------------- *)
\* q = the request found on the agent connection when the caller asked for algorithm a with key kind k
RequestClauses(a, k, q) ==
     (IF q.type = SIGN_REQUEST THEN {} ELSE {"P_request_type"})
\cup (IF q.blob \in {"listed", "plain"} THEN {} ELSE {"P_key_blob"})
\cup (IF q.data = "data" THEN {} ELSE {"P_data"})
\cup (IF a \in Sha256Names /\ q.flags # SHA256_FLAG THEN {"P_flags_sha256"} ELSE {})
\cup (IF a \in Sha512Names /\ q.flags # SHA512_FLAG THEN {"P_flags_sha512"} ELSE {})
\cup (IF a \notin Sha256Names \cup Sha512Names /\ q.flags # 0 THEN {"P_flags_not_zero"} ELSE {})
\* what the pinned code does beyond the statement: a certificate is signed for with its plain key blob
\cup (IF q.blob = (IF k \in CertKinds THEN "plain" ELSE "listed") THEN {} ELSE {"C_blob_choice"})

\* o = how sign_ssh_data ended when the agent answered with packet type rt
OutcomeClauses(rt, o) ==
     (IF rt = SIGN_RESPONSE /\ o # [kind |-> "returned", sig |-> "sig"] THEN {"P_signature_not_returned"} ELSE {})
\cup (IF rt # SIGN_RESPONSE /\ o.kind # "raised" THEN {"P_non_signature_accepted"} ELSE {})

(* ---- the state machine --------------------------------------------------------- *)
Init == /\ alg \in Algs /\ key \in KeyKinds /\ rtype \in ReplyTypes
        /\ pc = "build" /\ req = NoReq /\ wire = <<>> /\ outcome = Pending

FlagChosen(a) ==
  CASE Mutation = "flags_swapped"  -> (IF a \in Sha256Names THEN SHA512_FLAG ELSE IF a \in Sha512Names THEN SHA256_FLAG ELSE 0)
    [] Mutation = "no_cert_forms"  -> (IF a = "rsa-sha2-256" THEN SHA256_FLAG ELSE IF a = "rsa-sha2-512" THEN SHA512_FLAG ELSE 0)
    [] Mutation = "both_flags"     -> (IF a \in Sha256Names \cup Sha512Names THEN SHA256_FLAG + SHA512_FLAG ELSE 0)
    [] OTHER                       -> FlagFor(a)

BuildRequest == /\ pc = "build"
                /\ req' = [type |-> SIGN_REQUEST,
                           blob |-> IF key \in CertKinds THEN "plain" ELSE "listed",
                           data |-> "data",
                           flags |-> FlagChosen(alg)]
                /\ pc' = "send"
                /\ UNCHANGED <<alg, key, rtype, wire, outcome>>

Send == /\ pc = "send"
        /\ wire' = Append(wire, req)
        /\ pc' = "await"
        /\ UNCHANGED <<alg, key, rtype, req, outcome>>

AgentReply == /\ pc = "await"          \* environment: the answer has type rtype (and carries "sig" when a SIGN_RESPONSE)
              /\ pc' = "deliver"
              /\ UNCHANGED <<alg, key, rtype, req, wire, outcome>>

Deliver == /\ pc = "deliver"
           /\ outcome' = IF rtype = SIGN_RESPONSE \/ Mutation = "any_reply_accepted"
                         THEN [kind |-> "returned", sig |-> IF rtype = SIGN_RESPONSE THEN "sig" ELSE "other"]
                         ELSE [kind |-> "raised", sig |-> "none"]
           /\ pc' = "done"
           /\ UNCHANGED <<alg, key, rtype, req, wire>>

Next == BuildRequest \/ Send \/ AgentReply \/ Deliver
Spec == Init /\ [][Next]_vars

(* ---- invariants (the statement of C45 on the model) ---------------------------- *)
TypeOK == /\ pc \in {"build", "send", "await", "deliver", "done"}
          /\ outcome.kind \in {"pending", "returned", "raised"}
          /\ Len(wire) <= 1
\* exactly one request reaches the agent, and it satisfies every request clause
RequestOK == /\ (pc \in {"await", "deliver", "done"} => Len(wire) = 1 /\ RequestClauses(alg, key, wire[1]) = {})
             /\ (pc \in {"build", "send"} => wire = <<>>)
\* nothing is returned before the agent answered
NoEarlyResult == pc # "done" => outcome = Pending
OutcomeOK == pc = "done" => OutcomeClauses(rtype, outcome) = {}
\* emitted for spec -> code replay: one case per (algorithm, key kind, reply type)
Emit == pc = "done" => PrintT(<<"CASE", alg, key, rtype, req, outcome>>)
=============================================================================
