---------------------------- MODULE KeyDerivation ----------------------------
(* C04.  Session keys: Transport._compute_key (RFC 4253 section 7.2) and the    *)
(* choice of key letters in Transport._activate_outbound / _activate_inbound    *)
(* (paramiko/transport.py), for a client and a server that run MaxKex key       *)
(* exchanges.  Hashing is symbolic: a digest is the term [hash |-> <<inputs>>];   *)
(* the shared secret K and the exchange hash H of key exchange number k are the  *)
(* atoms [secret |-> k], [exhash |-> k], a key letter X is [letter |-> X]; the    *)
(* session identifier is H of the first exchange.                                *)
EXTENDS Naturals, Sequences, FiniteSets, TLC

CONSTANTS MaxKex,        \* key exchanges per connection (2 = one re-key)
          HLen,          \* digest length of the key-exchange hash (20, 32, 48, 64)
          IvLen, KeyLen, MacLen,   \* what the negotiated cipher / MAC need
          Mutations      \* subset of {"swap", "last", "sid", "oldhash", "engreuse"}: defects a behaviour may start with (see mut)

Roles == {"client", "server"}
Dirs  == {"out", "in"}
Peer(r) == IF r = "client" THEN "server" ELSE "client"
CeilDiv(a, b) == (a + b - 1) \div b

(* ---- RFC 4253 7.2, written as the RFC writes it ---- *)
\* every key exchange negotiates its own kex method and with it its own hash function (sha1 / sha256 / sha384 /
\* sha512): exchange number k uses HashAlg(k); in the worst case each one differs from the one before
HashAlg(k) == k
Hash(a, x) == [hash |-> x, alg |-> a]
Secret(k) == [secret |-> k]
ExHash(k) == [exhash |-> k]
Letter(X) == [letter |-> X]
\* the value of the j-th digest K_j of the derivation (k, session id, X), used as an input of later digests
\* (naming it instead of nesting the term keeps terms linear in the number of blocks)
Dg(k, sd, X, j) == [digest |-> j, of |-> <<k, sd, X>>]
\* K1 = HASH(K || H || X || session_id);  K(i+1) = HASH(K || H || K1 || ... || Ki)
RfcBlock(k, sd, X, i) ==
    IF i = 1 THEN Hash(HashAlg(k), <<Secret(k), ExHash(k), Letter(X), sd>>)
    ELSE Hash(HashAlg(k), <<Secret(k), ExHash(k)>> \o [j \in 1..(i - 1) |-> Dg(k, sd, X, j)])
\* key = first n bytes of K1 || K2 || ...   (hl = digest length)
RfcKeyH(k, sd, X, n, hl) == [blocks |-> [i \in 1..CeilDiv(n, hl) |-> RfcBlock(k, sd, X, i)], take |-> n]
RfcKey(k, sd, X, n) == RfcKeyH(k, sd, X, n, HLen)
\* initial IV / encryption key / integrity key, client to server: A / C / E; server to client: B / D / F
RfcLetter(c2s, what) == IF c2s THEN (CASE what = "iv" -> "A" [] what = "key" -> "C" [] what = "mac" -> "E")
                        ELSE        (CASE what = "iv" -> "B" [] what = "key" -> "D" [] what = "mac" -> "F")

VARIABLES mut,     \* "none" = the code as it is; otherwise one seeded defect, fixed for the behaviour:
                   \*   "swap": letters of the two directions exchanged in BOTH roles (symmetric bug)
                   \*   "last": extension hashes only the last digest, not K1 || ... || Ki
                   \*   "sid":  session id overwritten at re-key
                   \*   "engreuse": the cipher engine object of a direction is built once and kept across key exchanges:
                   \*               the derived key is right, the key the engine encrypts with is the first exchange's
                   \*   "oldhash": the hash function of the FIRST exchange is kept for the key derivation of later ones
          kex,     \* key exchanges completed so far (both sides know K and H of exchange number kex)
          sid,     \* session identifier
          inst     \* inst[role][dir] = keys installed in that Packetizer direction ([kex |-> 0] = none yet)
vars == <<mut, kex, sid, inst>>

(* ---- what the code does ---- *)
\* _compute_key: out = sofar = H(K, H, id, sid); while len(out) < nbytes: d = H(K, H, sofar); out += d; sofar += d
\* hash_algo = getattr(self.kex_engine, "hash_algo", None): the hash of the exchange that has just been run
CodeAlg(k) == IF mut = "oldhash" THEN HashAlg(1) ELSE HashAlg(k)
\* blocks = the hash computations done so far, sofar = their digests (the accumulated byte string)
RECURSIVE Extend(_, _, _, _, _, _, _)
Extend(k, sd, X, blocks, sofar, n, hl) ==
    IF Len(blocks) * hl >= n THEN blocks
    ELSE Extend(k, sd, X,
                Append(blocks, Hash(CodeAlg(k), <<Secret(k), ExHash(k)>> \o (IF mut # "last" THEN sofar ELSE <<sofar[Len(sofar)]>>))),
                Append(sofar, Dg(k, sd, X, Len(sofar) + 1)), n, hl)
ComputeKeyH(k, sd, X, n, hl) ==
    [blocks |-> Extend(k, sd, X, <<Hash(CodeAlg(k), <<Secret(k), ExHash(k), Letter(X), sd>>)>>, <<Dg(k, sd, X, 1)>>, n, hl), take |-> n]
ComputeKey(k, sd, X, n) == ComputeKeyH(k, sd, X, n, HLen)
\* the hash calls _compute_key makes, in order (what the trace of the real function is compared with)
HashInputs(k, sd, X, n, hl) == [i \in 1..Len(ComputeKeyH(k, sd, X, n, hl).blocks) |-> ComputeKeyH(k, sd, X, n, hl).blocks[i].hash]

\* _activate_outbound / _activate_inbound: letter selection by role and direction
C2S(role, dir) == (role = "client" /\ dir = "out") \/ (role = "server" /\ dir = "in")
CodeLetter(role, dir, what) == RfcLetter(IF mut # "swap" THEN C2S(role, dir) ELSE ~C2S(role, dir), what)

NoKeys == [kex |-> 0]

Init == mut \in {"none"} \cup Mutations /\ kex = 0 /\ sid = [none |-> 0] /\ inst = [r \in Roles |-> [d \in Dirs |-> NoKeys]]

\* the key exchange proper (C06-C08): both sides end up with the same K, H; _set_K_H keeps the first H as session id
SetKH == /\ kex < MaxKex
         /\ \A r \in Roles, d \in Dirs : inst[r][d].kex = kex          \* previous keys fully in use
         /\ kex' = kex + 1
         /\ sid' = IF kex = 0 \/ mut = "sid" THEN ExHash(kex + 1) ELSE sid
         /\ UNCHANGED <<mut, inst>>
Keys(role, dir) == [kex |-> kex,
                    iv  |-> ComputeKey(kex, sid, CodeLetter(role, dir, "iv"), IvLen),
                    key |-> ComputeKey(kex, sid, CodeLetter(role, dir, "key"), KeyLen),
                    \* _get_engine(name, key, iv, ...): the key the cipher object of this direction really works with
                    eng |-> IF mut = "engreuse" /\ inst[role][dir].kex > 0 THEN inst[role][dir].eng
                            ELSE ComputeKey(kex, sid, CodeLetter(role, dir, "key"), KeyLen),
                    mac |-> ComputeKey(kex, sid, CodeLetter(role, dir, "mac"), MacLen)]
ActivateOutbound(r) == /\ kex > 0 /\ inst[r]["out"].kex < kex
                       /\ inst' = [inst EXCEPT ![r]["out"] = Keys(r, "out")]
                       /\ UNCHANGED <<mut, kex, sid>>
\* on the peer's NEWKEYS, which it sends in its own _activate_outbound
ActivateInbound(r)  == /\ kex > 0 /\ inst[r]["in"].kex < kex /\ inst[Peer(r)]["out"].kex = kex
                       /\ inst' = [inst EXCEPT ![r]["in"] = Keys(r, "in")]
                       /\ UNCHANGED <<mut, kex, sid>>
Next == SetKH \/ \E r \in Roles : ActivateOutbound(r) \/ ActivateInbound(r)
Spec == Init /\ [][Next]_vars

(* ---- properties ---- *)
Whats == {"iv", "key", "mac"}
Need(what) == CASE what = "iv" -> IvLen [] what = "key" -> KeyLen [] what = "mac" -> MacLen
Installed(r, d) == inst[r][d].kex > 0
\* exactly the RFC derivation, with the RFC letters, from the session id of the FIRST exchange
Rfc72 == \A r \in Roles, d \in Dirs : Installed(r, d) =>
            \A w \in Whats : inst[r][d][w] = RfcKey(inst[r][d].kex, ExHash(1), RfcLetter(C2S(r, d), w), Need(w))
\* the keys IN USE are the derived ones: the engine of every direction works with the encryption key of its exchange
EngineUsesDerived == \A r \in Roles, d \in Dirs : Installed(r, d) =>
            inst[r][d].eng = RfcKey(inst[r][d].kex, ExHash(1), RfcLetter(C2S(r, d), "key"), KeyLen)
\* a client's outbound keys are the server's inbound keys and vice versa
DirectionsMatch == \A r \in Roles : (Installed(r, "out") /\ inst[Peer(r)]["in"].kex = inst[r]["out"].kex)
                                       => inst[r]["out"] = inst[Peer(r)]["in"]
\* the two directions never share a key (nor do two different purposes, nor two key exchanges)
AllKeys == {<<r, d, w>> \in Roles \X Dirs \X Whats : Installed(r, d)}
NeverShared == \A x \in AllKeys, y \in AllKeys :
                  (inst[x[1]][x[2]][x[3]].blocks[1] = inst[y[1]][y[2]][y[3]].blocks[1])
                     => /\ x[3] = y[3] /\ inst[x[1]][x[2]].kex = inst[y[1]][y[2]].kex
                        /\ C2S(x[1], x[2]) = C2S(y[1], y[2])
\* the loop of _compute_key = the RFC's K1 || K2 || ... for every letter and length up to 4 digests
LoopIsRfc == \A X \in {"A", "B", "C", "D", "E", "F"}, n \in 1..(4 * HLen) : kex > 0 =>
                ComputeKey(kex, sid, X, n) = RfcKey(kex, sid, X, n)
Correct == Rfc72 /\ EngineUsesDerived /\ DirectionsMatch /\ NeverShared /\ LoopIsRfc
\* what is checked: the code as it is satisfies everything ...
Holds  == mut = "none" => Correct
\* ... and each seeded defect is noticed by at least one of the properties (they are not vacuous)
Caught == (mut # "none" /\ ~Correct) => PrintT(<<"CAUGHT", mut, ~Rfc72 \/ ~EngineUsesDerived, ~DirectionsMatch, ~NeverShared, ~LoopIsRfc>>)
=============================================================================
