---------------------------- MODULE FramingLemma ----------------------------
(* C03, "all payload lengths 1..2^32-1 (symbolically)": the padding chosen by     *)
(* _build_packet satisfies RFC 4253 section 6 for EVERY natural payload length,   *)
(* both block sizes and all four framing modes.  Checked by tlapm (SMT backend).  *)
EXTENDS FramingDefs, TLAPS

THEOREM PadLemma ==
    \A n \in Nat, b \in {8, 16}, mode \in Modes :
        /\ Pad(n, b, mode) >= 4 /\ Pad(n, b, mode) <= b + 3
        /\ (n + AddLen(mode) + Pad(n, b, mode) - 3) % b = 0
  BY SMT DEF Pad, AddLen, LenInClear, Modes

THEOREM WellFramedAlways ==
    \A n \in Nat, b \in {8, 16}, mode \in Modes, mac \in Nat : WellFramed(Build(n, b, mode, mac))
<1> TAKE n \in Nat, b \in {8, 16}, mode \in Modes, mac \in Nat
<1> DEFINE pad == Pad(n, b, mode)
<1>1. /\ pad >= 4 /\ pad <= b + 3 /\ (n + AddLen(mode) + pad - 3) % b = 0
  BY PadLemma
<1>2. pad \in Nat /\ pad <= 255
  BY <1>1, SMT DEF Pad, AddLen, LenInClear, Modes
<1>3. PadRange(Build(n, b, mode, mac))
  BY <1>1, <1>2 DEF PadRange, Build
<1>4. LenConsistent(Build(n, b, mode, mac))
  BY DEF LenConsistent, Build, LenField
<1>5. MacLen(Build(n, b, mode, mac))
  BY DEF MacLen, Build, RawLen, LenField
<1>6. Max(8, b) = b
  BY DEF Max
<1>7. EncPortion(Build(n, b, mode, mac)) = n + AddLen(mode) + pad - 3
  BY <1>2, SMT DEF EncPortion, Build, LenField, AddLen, LenInClear, Modes
<1>8. BlockAligned(Build(n, b, mode, mac))
  BY <1>1, <1>6, <1>7 DEF BlockAligned, Build
<1> QED
  BY <1>3, <1>4, <1>5, <1>8 DEF WellFramed
=============================================================================
