------------------------- MODULE ChannelStreams_Gen -------------------------
(* spec -> code for C21: ChannelStreams (repaired, atomic combine switch) with a  *)
(* history of its steps.  Every complete behaviour (every channel's exit status     *)
(* delivered, everything written delivered and read) is printed as                  *)
(* <<"BEH", hist>>; hist is a sequence of integer tuples                            *)
(*   <<1, c, s, pos, n>>  the peer writes n bytes at offset pos of stream s (0 out, 1 err) *)
(*   <<2, c, v>>          the peer sends exit status v                               *)
(*   <<3, c, s>>          the transport thread dispatches the head message (s: 2 exit status, 3 EOF, 4 CLOSE) *)
(*   <<6, c>> / <<7, c>>  the peer sends EOF / CLOSE                                  *)
(*   <<9, c>>             second statement of the exit-status handler (the replay runs  *)
(*                        the whole handler at <<3, c, 2>>)                              *)
(*   <<8, c>>             recv_exit_status() returns on channel c                       *)
(*   <<4, c>>             set_combine_stderr(True) on channel c                      *)
(*   <<5, c, ep, k, runs>> recv (ep 0) / recv_stderr (ep 1) asking for k bytes returns*)
(*                        runs = <<<<s, pos, n>>, ...>>                             *)
(* LateSwitch = TRUE directs the generation at "run a command, wait for it to end,  *)
(* then read everything combined": the switch comes only after EOF / CLOSE has been  *)
(* processed and stderr is not read before it.                                       *)
(* The check executes each step on real Channel objects and compares every read.    *)
EXTENDS ChannelStreams
CONSTANT LateSwitch
VARIABLE hist
SC(s) == CASE s = "out" -> 0 [] s = "err" -> 1 [] s = "exit" -> 2 [] s = "eof" -> 3 [] s = "close" -> 4
RunTuples(q) == [j \in 1..Len(q) |-> <<SC(q[j].s), q[j].pos, q[j].n>>]
GInit == Init /\ hist = <<>>
GNext ==
  \/ \E c \in Chans, s \in Eps, n \in 1..MaxMsg :
        PeerWrite(c, s, n) /\ hist' = Append(hist, <<1, c, SC(s), sent[c][s], n>>)
  \/ \E c \in Chans, v \in Statuses : PeerExit(c, v) /\ hist' = Append(hist, <<2, c, v>>)
  \/ \E c \in Chans : PeerEof(c) /\ hist' = Append(hist, <<6, c>>)
  \/ \E c \in Chans : PeerClose(c) /\ hist' = Append(hist, <<7, c>>)
  \/ (FeedOut \/ FeedExtAtomic \/ ExitStatus1 \/ EofOrClose) /\ hist' = Append(hist, <<3, Head(wire).c, SC(Head(wire).s)>>)
  \/ ExitStatus2 /\ hist' = Append(hist, <<9, tpc[1].m.c>>)
  \/ \E c \in Chans : RecvExitStatus(c) /\ hist' = Append(hist, <<8, c>>)
  \/ \E c \in Chans : (LateSwitch => shut[c]) /\ CombineAtomic(c) /\ hist' = Append(hist, <<4, c>>)
  \/ \E c \in Chans, ep \in Eps, k \in ReadSizes :
        (LateSwitch /\ ep = "err" => swpc[c] = "on") /\
        Recv(c, ep, k) /\ hist' = Append(hist, <<5, c, SC(ep), k, RunTuples(TakeBytes(buf[c][ep], k))>>)
GSpec == GInit /\ [][GNext]_<<vars, hist>>
Complete == \A c \in Chans : /\ statusSent[c] # None /\ status[c] # None /\ reported[c] # Unread /\ Drained(c)
                              /\ pstate[c] # "open" /\ shut[c]
                              /\ (LateSwitch => swpc[c] = "on")
Emit == Complete => PrintT(<<"BEH", hist>>)
=============================================================================
