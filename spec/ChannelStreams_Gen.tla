------------------------- MODULE ChannelStreams_Gen -------------------------
(* spec -> code for C21: ChannelStreams (repaired, atomic combine switch) with a  *)
(* history of its steps.  Every complete behaviour (every channel's exit status     *)
(* delivered, everything written delivered and read) is printed as                  *)
(* <<"BEH", hist>>; hist is a sequence of integer tuples                            *)
(*   <<1, c, s, pos, n>>  the peer writes n bytes at offset pos of stream s (0 out, 1 err) *)
(*   <<2, c, v>>          the peer sends exit status v                               *)
(*   <<3, c, s>>          the transport thread dispatches the head message           *)
(*   <<4, c>>             set_combine_stderr(True) on channel c                      *)
(*   <<5, c, ep, k, runs>> recv (ep 0) / recv_stderr (ep 1) asking for k bytes returns*)
(*                        runs = <<<<s, pos, n>>, ...>>                             *)
(* The check executes each step on real Channel objects and compares every read.    *)
EXTENDS ChannelStreams
VARIABLE hist
SC(s) == IF s = "out" THEN 0 ELSE IF s = "err" THEN 1 ELSE 2
RunTuples(q) == [j \in 1..Len(q) |-> <<SC(q[j].s), q[j].pos, q[j].n>>]
GInit == Init /\ hist = <<>>
GNext ==
  \/ \E c \in Chans, s \in Eps, n \in 1..MaxMsg :
        PeerWrite(c, s, n) /\ hist' = Append(hist, <<1, c, SC(s), sent[c][s], n>>)
  \/ \E c \in Chans, v \in Statuses : PeerExit(c, v) /\ hist' = Append(hist, <<2, c, v>>)
  \/ (FeedOut \/ FeedExtAtomic \/ ExitStatus) /\ hist' = Append(hist, <<3, Head(wire).c, SC(Head(wire).s)>>)
  \/ \E c \in Chans : CombineAtomic(c) /\ hist' = Append(hist, <<4, c>>)
  \/ \E c \in Chans, ep \in Eps, k \in ReadSizes :
        Recv(c, ep, k) /\ hist' = Append(hist, <<5, c, SC(ep), k, RunTuples(TakeBytes(buf[c][ep], k))>>)
GSpec == GInit /\ [][GNext]_<<vars, hist>>
Complete == \A c \in Chans : statusSent[c] # None /\ status[c] # None /\ Drained(c)
Emit == Complete => PrintT(<<"BEH", hist>>)
=============================================================================
