------------------------- MODULE BufferedStream_Gen -------------------------
(* spec -> code for C42: BufferedStream with a history of its steps.  Every      *)
(* complete behaviour (MaxOps calls made, or the file closed) is printed as       *)
(* <<"BEH", Buf, src, hist>>; hist lists calls, every _read (asked, delivered), every   *)
(* _write (offered, accepted) and every returned value, so the check can script    *)
(* the real stream with the same chunking and compare.                             *)
EXTENDS BufferedStream
VARIABLE hist
GInit == Init /\ hist = <<>>
\* events are printed as integer tuples <<kind, op, n, data, a, b>> (cheap to print and to parse)
TCode(t) == CASE t = "init" -> 0 [] t = "call" -> 1 [] t = "callret" -> 2 [] t = "fetch" -> 3 [] t = "accept" -> 4 [] t = "ret" -> 5
                 [] t = "raise" -> 6
OCode(o) == CASE o = "none" -> 0 [] o = "read" -> 1 [] o = "readline" -> 2 [] o = "write" -> 3 [] o = "flush" -> 4 [] o = "close" -> 5
                 [] o = "readall" -> 1
Code(e) == <<TCode(e.t), OCode(e.op), e.n, e.d, e.a, e.b>>
GNext == Next /\ hist' = Append(hist, Code(ev'))
GSpec == GInit /\ [][GNext]_<<vars, hist>>
Complete == pc = "idle" /\ (ops = MaxOps \/ closed)
Emit == Complete => PrintT(<<"BEH", Buf, src, hist>>)
=============================================================================
