----------------------------- MODULE Rekey_Trace -----------------------------
(* code -> spec for C11.  One trace = one real re-exchange: the initiator's       *)
(* outbound message sequence from its KEXINIT on (tap, wire order), its peer's,   *)
(* and the observations made afterwards.  Message types are numbers; the spec's   *)
(* KexQuiet is evaluated on the sequences with 20 = KEXINIT, 21 = NEWKEYS and      *)
(* "kex type" = transport-layer / key-exchange range 1..49.                        *)
EXTENDS Naturals, Sequences, TLC, Json, IOUtils, TLCExt
Batch == JsonDeserialize(IOEnv.TRACE_FILE)
VARIABLES tid, l, bad
tvars == <<tid, l, bad>>
T == Batch[tid]
IsKexType(t) == t >= 1 /\ t <= 49
\* the abstraction function from wire types to Rekey's alphabet, and Rekey!QuietBetween / OpenTail on it
Quiet(s) ==
  /\ \A i, j, k \in 1..Len(s) :
       (i < k /\ k < j /\ s[i] = 20 /\ s[j] = 21 /\ \A x \in (i+1)..(j-1) : s[x] # 21) => IsKexType(s[k])
  /\ \A i, k \in 1..Len(s) : (i < k /\ s[i] = 20 /\ \A x \in (i+1)..Len(s) : s[x] # 21) => IsKexType(s[k])
TInit == tid \in 1..Len(Batch) /\ l = 1 /\ bad = {}
TNext == /\ l = 1 /\ l' = 2 /\ tid' = tid
         /\ bad' = (IF Quiet(T.a_out) THEN {} ELSE {"P_initiator_emitted_non_kex_message_during_exchange"})
                   \cup (IF Quiet(T.b_out) THEN {} ELSE {"P_responder_emitted_non_kex_message_during_exchange"})
                   \cup (IF T.completed THEN {} ELSE {"P_reexchange_did_not_complete"})
                   \cup (IF T.a_active /\ T.b_active THEN {} ELSE {"P_session_lost"})
                   \cup (IF T.delivered THEN {} ELSE {"P_inflight_traffic_not_delivered"})
                   \* N reply-wanting requests crossed the exchange (want_seq: the reply type each must get, rep_seq: the replies
                   \* the requester received): Rekey!NoReplyLost - as many replies as requests; and they come in request order
                   \cup (IF Len(T.rep_seq) = Len(T.want_seq) THEN {} ELSE {"P_held_back_replies_dropped"})
                   \cup (IF Len(T.rep_seq) # Len(T.want_seq) \/ T.rep_seq = T.want_seq THEN {} ELSE {"C_held_back_replies_out_of_order"})
                   \cup (IF T.usable THEN {} ELSE {"P_session_unusable_afterwards"})
                   \cup (IF T.user_intact THEN {} ELSE {"P_user_data_lost_or_reordered"})
TSpec == TInit /\ [][TNext]_tvars
Report == /\ (bad # {} => PrintT(<<"VERDICT", tid, bad>>))
          /\ (l = 2 => PrintT(<<"DONE", tid>>))
=============================================================================
