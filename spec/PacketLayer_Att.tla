--------------------------- MODULE PacketLayer_Att ---------------------------
(* spec -> code generation for C02: the sender runs a fixed script ("S" =        *)
(* send_message, "K" = key switch), then the attacker performs 1..MaxTamper      *)
(* edits on the bytes in flight, then everything arrives and the receiver reads   *)
(* until it stops.  Every terminal state is emitted: the edits, what the model    *)
(* delivers and how the receiver ends.  The driver renders an edit of (packet i,  *)
(* region r) to a concrete byte edit of a recorded ciphertext stream.             *)
EXTENDS PacketLayer
CONSTANT ScriptId
Script == CASE ScriptId = 1 -> <<"S", "S", "K", "S", "S">>
            [] ScriptId = 2 -> <<"S", "K", "S", "K", "S">>
            [] ScriptId = 3 -> <<"S", "S", "S", "S">>
            [] ScriptId = 4 -> <<"K", "S", "S", "S", "K", "S">>
VARIABLES pc, phase, atts, epochs      \* epochs = modes of the key epochs the script opened
avars == <<vars, pc, phase, atts, epochs>>
AInit == Init /\ pc = 1 /\ phase = "send" /\ atts = <<>> /\ epochs = <<>>
Log(a, i, r) == atts' = Append(atts, <<a, i, r>>)
ANext ==
  \/ /\ phase = "send" /\ pc <= Len(Script)
     /\ IF Script[pc] = "S" THEN SendMessage /\ epochs' = epochs
                          ELSE \E m \in Modes : ActivateOutbound(m) /\ epochs' = Append(epochs, m)
     /\ pc' = pc + 1 /\ UNCHANGED <<phase, atts>>
  \/ /\ phase = "send" /\ pc > Len(Script)
     /\ phase' = "attack" /\ UNCHANGED <<vars, pc, atts, epochs>>
  \/ /\ phase = "attack"
     /\ UNCHANGED <<pc, phase, epochs>>
     /\ \E i \in 1..(Len(Script) + MaxTamper) :
           \/ \E r \in Regions : Flip(i, r) /\ Log("Flip", i, r)
           \/ DelByte(i) /\ Log("DelByte", i, "")
           \/ InsByte(i) /\ Log("InsByte", i, "")
           \/ Drop(i)    /\ Log("Drop", i, "")
           \/ Replay(i)  /\ Log("Replay", i, "")
           \/ Swap(i)    /\ Log("Swap", i, "")
           \/ Cut(i)     /\ Log("Cut", i, "")
  \/ /\ phase = "attack" /\ atts # <<>>
     /\ phase' = "read" /\ UNCHANGED <<vars, pc, atts, epochs>>
  \/ /\ phase = "read" /\ UNCHANGED <<pc, phase, atts, epochs>>
     /\ \/ arrived < Cells * Len(wire) /\ Arrive(Cells * Len(wire) - arrived)
        \/ arrived = Cells * Len(wire) /\ ReadMessage
ASpec == AInit /\ [][ANext]_avars
Stopped == phase = "read" /\ arrived = Cells * Len(wire) /\ (rstate # "ok" \/ wire = <<>>)
EmitAtt == Stopped => PrintT(<<"ATT", cfg.strict, cfg.zlib, <<cfg.mode0>> \o epochs, atts, delivered, rstate>>)
=============================================================================
