--------------------------- MODULE ChannelIds_Gen ---------------------------
(* spec -> code for C23: ChannelIds with a history.  The first entry is the        *)
(* initial state <<0, counter, ids already open>>, then                              *)
(*   <<1, id>> LocalOpen   <<2, id>> PeerOpenBegin   <<3, id>> PeerOpenCommit         *)
(*   <<4, id>> PeerOpenReject   <<5, id>> Close                                       *)
(* `adv` is how far the counter has moved: histories stop before it has gone once    *)
(* round the model's (small) id space, so that model ids map one-to-one, in order,   *)
(* onto real ids around the real wrap point 2^24 - 1 -> 0.                            *)
EXTENDS ChannelIds
CONSTANTS MaxSteps, MaxInit
VARIABLES hist, adv
SetToSeq(S) == CHOOSE f \in [1..Cardinality(S) -> S] : \A i, j \in 1..Cardinality(S) : i < j => f[i] < f[j]
Dist(a, b) == (b - a + N) % N             \* steps from a to b going up cyclically
GInit == /\ counter \in Ids /\ pend = <<>> /\ inwin = 0
         /\ \E S \in SUBSET Ids : /\ Cardinality(S) <= MaxInit
                                  /\ map = S /\ open = [i \in S |-> 1]
         /\ hist = <<<<0, counter, SetToSeq(map)>>>>
         /\ adv = 0
Step(tag, id) == hist' = Append(hist, <<tag, id>>)
GNext ==
  /\ Len(hist) <= MaxSteps
  /\ \/ LocalOpen /\ Step(1, NextFree(counter, map)) /\ adv' = adv + Dist(counter, counter')
     \/ PeerOpenBegin /\ Step(2, NextFree(counter, map)) /\ adv' = adv + Dist(counter, counter')
     \/ PeerOpenCommit /\ Step(3, pend["T"]) /\ adv' = adv
     \/ PeerOpenReject /\ Step(4, pend["T"]) /\ adv' = adv
     \/ \E id \in DOMAIN open : Close(id) /\ Step(5, id) /\ adv' = adv
  /\ adv' < N
GSpec == GInit /\ [][GNext]_<<vars, hist, adv>>
Emit == (Len(hist) = MaxSteps + 1 /\ "T" \notin DOMAIN pend) => PrintT(<<"BEH", hist>>)
=============================================================================
