--------------------------- MODULE ChannelIds_Gen ---------------------------
(* spec -> code for C23: ChannelIds with a history.  The first entry is the        *)
(* initial state <<0, counter, ids already open>>, then                              *)
(*   <<1, id>> LocalOpen   <<2, id>> PeerOpenBegin   <<3, id>> PeerOpenCommit         *)
(*   <<4, id>> PeerOpenReject   <<5, id>> Close                                       *)
(*   <<6, id>> stray OPEN_FAILURE   <<7, id>> stray OPEN_CONFIRMATION   <<8, id>> duplicate CLOSE *)
(* StrayFirst = TRUE directs the generation: the history starts with a stray          *)
(* OPEN_FAILURE for a channel that is open, which then stays open - the counter         *)
(* travels towards that id (wrap-around).                                              *)
(* `adv` is how far the counter has moved: histories stop before it has gone once    *)
(* round the model's (small) id space, so that model ids map one-to-one, in order,   *)
(* onto real ids around the real wrap point 2^24 - 1 -> 0.                            *)
EXTENDS ChannelIds
CONSTANTS MaxSteps, MaxInit, StrayFirst
VARIABLES hist, adv
SetToSeq(S) == CHOOSE f \in [1..Cardinality(S) -> S] : \A i, j \in 1..Cardinality(S) : i < j => f[i] < f[j]
Dist(a, b) == (b - a + N) % N             \* steps from a to b going up cyclically
GInit == /\ counter \in Ids /\ pend = <<>> /\ inwin = 0
         /\ \E S \in SUBSET Ids : /\ Cardinality(S) <= MaxInit
                                  /\ (StrayFirst => S # {})
                                  /\ map = S /\ open = [i \in S |-> 1]
         /\ hist = <<<<0, counter, SetToSeq(map)>>>>
         /\ adv = 0
Step(tag, id) == hist' = Append(hist, <<tag, id>>)
First == StrayFirst /\ Len(hist) = 1
\* out-of-turn messages are sparse (two per history) and name ids that mean something: an open channel, a
\* half-registered peer open, or the id the counter points at (no channel)
StrayCount == Cardinality({i \in 2..Len(hist) : hist[i][1] \in {6, 7, 8}})
StrayIds == DOMAIN open \cup Range(pend) \cup {counter}
GNext ==
  /\ Len(hist) <= MaxSteps
  /\ \/ ~First /\ LocalOpen /\ Step(1, NextFree(counter, map)) /\ adv' = adv + Dist(counter, counter')
     \/ ~First /\ PeerOpenBegin /\ Step(2, NextFree(counter, map)) /\ adv' = adv + Dist(counter, counter')
     \/ PeerOpenCommit /\ Step(3, pend["T"]) /\ adv' = adv
     \/ PeerOpenReject /\ Step(4, pend["T"]) /\ adv' = adv
     \/ ~First /\ \E id \in DOMAIN open : /\ (StrayFirst => id # hist[2][2])     \* the named channel stays open
                                            /\ Close(id) /\ Step(5, id) /\ adv' = adv
     \/ \E id \in StrayIds : /\ (StrayFirst => First /\ id \in DOMAIN open) /\ StrayCount < 2
                        /\ StrayOpenFailure(id) /\ Step(6, id) /\ adv' = adv
     \/ ~StrayFirst /\ StrayCount < 2 /\ \E id \in StrayIds : StrayOpenSuccess(id) /\ Step(7, id) /\ adv' = adv
     \/ ~StrayFirst /\ StrayCount < 2 /\ \E id \in StrayIds : DuplicateClose(id) /\ Step(8, id) /\ adv' = adv
  /\ adv' < N
GSpec == GInit /\ [][GNext]_<<vars, hist, adv>>
\* complete: the step budget is used up, or (directed run) the counter has been all the way round
Emit == ("T" \notin DOMAIN pend /\ (Len(hist) = MaxSteps + 1 \/ (StrayFirst /\ adv >= N - 2)))
        => PrintT(<<"BEH", hist>>)
=============================================================================
