--------------------------- MODULE ChannelIds_Gen ---------------------------
(* spec -> code for C23: ChannelIds with a history.  The first entry is the        *)
(* initial state <<0, counter, ids already open>>, then                              *)
(*   <<1, id>> LocalOpen   <<2, id>> PeerOpenBegin   <<3, id>> PeerOpenCommit         *)
(*   <<4, id>> PeerOpenReject   <<5, id>> Close                                       *)
(*   <<6, id>> stray OPEN_FAILURE   <<7, id>> stray OPEN_CONFIRMATION   <<8, id>> duplicate CLOSE *)
(*   <<9, id>> LocalOpenSend (open_channel waits for the answer)   <<10, id>> OpenAccepted *)
(*   <<11, id>> OpenRefused   <<12, id>> OpenTimeout                                    *)
(* Directed = "timeout": local opens time out only while a peer open sits between       *)
(* allocation and registration, and nothing is closed or refused.                       *)
(* Directed = "stray" directs the generation: the history starts with a stray          *)
(* OPEN_FAILURE for a channel that is open, which then stays open - the counter         *)
(* travels towards that id (wrap-around).                                              *)
(* `adv` is how far the counter has moved: histories stop before it has gone once    *)
(* round the model's (small) id space, so that model ids map one-to-one, in order,   *)
(* onto real ids around the real wrap point 2^24 - 1 -> 0.                            *)
EXTENDS ChannelIds
CONSTANTS MaxSteps, MaxInit,
          Directed    \* "none" | "stray" | "timeout": see above
VARIABLES hist, adv
StrayFirst == Directed = "stray"
TimeoutRun == Directed = "timeout"
SetToSeq(S) == CHOOSE f \in [1..Cardinality(S) -> S] : \A i, j \in 1..Cardinality(S) : i < j => f[i] < f[j]
Dist(a, b) == (b - a + N) % N             \* steps from a to b going up cyclically
GInit == /\ counter \in Ids /\ pend = <<>> /\ inwin = 0 /\ await = {}
         /\ \E S \in SUBSET Ids : /\ Cardinality(S) <= MaxInit
                                  /\ (StrayFirst => S # {})
                                  /\ map = S /\ open = [i \in S |-> 1]
         /\ hist = <<<<0, counter, SetToSeq(map)>>>>
         /\ adv = 0
Step(tag, id) == hist' = Append(hist, <<tag, id>>)
First == StrayFirst /\ Len(hist) = 1
InWindow == "T" \in DOMAIN pend
\* the timeout-directed run: a peer open begins only while some local open waits; inside its window the waiting
\* opens time out first, then at least two more local opens follow before the peer's channel is registered
Steer == TimeoutRun /\ InWindow => await = {}
\* out-of-turn messages are sparse (two per history) and name ids that mean something: an open channel, a
\* half-registered peer open, or the id the counter points at (no channel)
StrayCount == Cardinality({i \in 2..Len(hist) : hist[i][1] \in {6, 7, 8}})
StrayIds == (DOMAIN open \cup Range(pend) \cup {counter}) \ await
GNext ==
  /\ Len(hist) <= MaxSteps
  /\ \/ ~First /\ Steer /\ LocalOpen /\ Step(1, NextFree(counter, map)) /\ adv' = adv + Dist(counter, counter')
     \/ ~First /\ (TimeoutRun => await # {}) /\ PeerOpenBegin /\ Step(2, NextFree(counter, map)) /\ adv' = adv + Dist(counter, counter')
     \/ (TimeoutRun => inwin >= 2) /\ PeerOpenCommit /\ Step(3, pend["T"]) /\ adv' = adv
     \/ ~TimeoutRun /\ PeerOpenReject /\ Step(4, pend["T"]) /\ adv' = adv
     \/ ~First /\ ~TimeoutRun
            /\ \E id \in DOMAIN open : /\ (StrayFirst => id # hist[2][2])     \* the named channel stays open
                                      /\ Close(id) /\ Step(5, id) /\ adv' = adv
     \/ ~TimeoutRun /\ \E id \in StrayIds : /\ (StrayFirst => First /\ id \in DOMAIN open) /\ StrayCount < 2
                                           /\ StrayOpenFailure(id) /\ Step(6, id) /\ adv' = adv
     \/ Directed = "none" /\ StrayCount < 2 /\ \E id \in StrayIds : StrayOpenSuccess(id) /\ Step(7, id) /\ adv' = adv
     \/ Directed = "none" /\ StrayCount < 2 /\ \E id \in StrayIds : DuplicateClose(id) /\ Step(8, id) /\ adv' = adv
     \* local opens that wait for their answer (not in the stray-directed run)
     \/ ~StrayFirst /\ Steer /\ LocalOpenSend /\ Step(9, NextFree(counter, map)) /\ adv' = adv + Dist(counter, counter')
     \/ \E id \in await : (TimeoutRun => ~InWindow) /\ OpenAccepted(id) /\ Step(10, id) /\ adv' = adv
     \/ ~TimeoutRun /\ \E id \in await : OpenRefused(id) /\ Step(11, id) /\ adv' = adv
     \/ \E id \in await : (TimeoutRun => InWindow) /\ OpenTimeout(id) /\ Step(12, id) /\ adv' = adv
  /\ adv' < N
GSpec == GInit /\ [][GNext]_<<vars, hist, adv>>
\* complete: the step budget is used up; the directed runs also print shorter histories (the check drops
\* histories that are a prefix of another one)
Emit == ("T" \notin DOMAIN pend /\ (Len(hist) = MaxSteps + 1 \/ (StrayFirst /\ adv >= N - 2) \/ (TimeoutRun /\ Len(hist) >= 7)))
        => PrintT(<<"BEH", hist>>)
=============================================================================
