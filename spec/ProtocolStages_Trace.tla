------------------------ MODULE ProtocolStages_Trace ------------------------
(* code -> spec for C38: each record is one concrete run of an abstract case of  *)
(* ProtocolStages against a real Transport:                                       *)
(*   role, stage, fam, method, msg, idx, class   the abstract case                *)
(*   reached / stuck / tolerated / died          what the driver saw              *)
(*   api   = [call, raised, cls, mro]            the API call in progress and the *)
(*                                               exception it raised (MRO names)  *)
(*   saved = [present, cls, mro]                 Transport.get_exception()        *)
(* The step installs the case as the model's injection and judges the surfaced   *)
(* classes with the design spec's Allowed / InModel / RawClass.                   *)
EXTENDS ProtocolStages, Json, IOUtils, TLCExt
Batch == JsonDeserialize(IOEnv.TRACE_FILE)
VARIABLES tid, l, bad
tvars == <<tid, l, bad, vars>>
R == Batch[tid]
K == Case(R.stage, R.fam, R.method, R.msg, R.idx, R.class)

\* the calls the statement names (connect, start_client, start_server, an auth call)
ListedCalls == {"start_client", "start_server", "connect", "auth_none", "auth_password", "auth_publickey",
                "auth_interactive"}
Internal(x, present) == present /\ ~Allowed(x.mro)
ApiInternal   == Internal(R.api, R.api.raised)
SavedInternal == Internal(R.saved, R.saved.present)
Predicted == IF InModel(R.role, K) THEN RawClass(R.role, R.stage, R.method, R.msg, R.idx, R.class) ELSE "-"

TInit == tid \in 1..Len(Batch) /\ l = 1 /\ bad = {} /\ Init
TNext == /\ l = 1 /\ l' = 2 /\ tid' = tid
         /\ role' = R.role /\ stage' = "end" /\ fam' = R.fam /\ method' = R.method /\ inj' = K
         /\ surfaced' = (IF R.saved.present THEN {R.saved.cls} ELSE {}) \cup (IF R.api.raised THEN {R.api.cls} ELSE {})
                         \cup (IF R.tolerated THEN {"tolerated"} ELSE {})
         /\ bad' = (IF ApiInternal /\ R.api.call \in ListedCalls THEN {"P_api_raised_internal_error"} ELSE {})
                   \cup (IF SavedInternal THEN {"P_get_exception_internal_error"} ELSE {})
                   \cup (IF ApiInternal /\ R.api.call \notin ListedCalls THEN {"C_other_api_internal_error"} ELSE {})
                   \cup (IF InModel(R.role, K) THEN {} ELSE {"C_case_not_in_model"})
                   \cup (IF R.reached THEN {} ELSE {"C_not_reached"})
                   \cup (IF R.stuck THEN {"C_stuck"} ELSE {})
                   \cup (IF (ApiInternal \/ SavedInternal) /\ Predicted = "-"
                           THEN {"C_internal_error_not_predicted"} ELSE {})
                   \cup (IF ~(ApiInternal \/ SavedInternal) /\ Predicted # "-" /\ R.reached
                           THEN {"C_predicted_internal_error_not_seen"} ELSE {})
TSpec == TInit /\ [][TNext]_tvars
Report == /\ (bad # {} => PrintT(<<"VERDICT", tid, bad>>))
          /\ (l = 2 => PrintT(<<"DONE", tid>>))
=============================================================================
