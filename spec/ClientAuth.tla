---------------------------- MODULE ClientAuth ----------------------------
(* X01 (beyond the listed properties).  SSHClient._auth (paramiko/client.py): the   *)
(* order in which a connecting client offers credentials.                           *)
(*                                                                                  *)
(* The machine has one step per call _auth makes to something outside itself - the  *)
(* transport's auth_* methods, the key loader (_key_from_filepath) and the agent's  *)
(* get_keys - and the environment answers each call with an *outcome*.  `pt` is the *)
(* call _auth is about to make (a "call point"); Answer(o) consumes the outcome and *)
(* moves to the next call point exactly as the code's loops, breaks and returns do. *)
(* This is a transcription of what the code does, including what it knowingly does  *)
(* not do (after a two-factor partial success inside key_filenames only the class   *)
(* loop is left, so the next file is still tried: action kept, named FileLoopGoesOn).*)
(*                                                                                  *)
(* Outcomes:  "ok"    auth_* returned [] (authenticated)                            *)
(*            "other" auth_publickey returned further methods, none of them         *)
(*                    password / keyboard-interactive (treated like "ok" by _auth)  *)
(*            "twof"  auth_publickey returned password and/or keyboard-interactive  *)
(*            "exc"   an SSHException (AuthenticationException, BadAuthenticationType, ...) *)
(*            "io"    an IOError/OSError from the key loader                        *)
(*            "err"   any other exception                                           *)
(*            "loaded" the key loader returned a key;  "n0".."n3" agent key count   *)
EXTENDS Naturals, Sequences, FiniteSets, TLC

CONSTANTS MaxFiles, MaxAgent, MaxDisc,   \* bounds of the configurations TLC enumerates
          HomePos,                       \* positions (1..6) of ~/.ssh, ~/ssh key files that may be populated
          Flags,                         \* the boolean inputs that may be TRUE (others stay FALSE)
          Mutation                       \* "none" = the code as it is; other values: seeded errors (must be refuted)

(* ---- the configuration of one connect() ----------------------------------------- *)
\* home[k], k = 1..6: what ~/.ssh/id_rsa, ~/ssh/id_rsa, ~/.ssh/id_ecdsa, ~/ssh/id_ecdsa, ~/.ssh/id_ed25519,
\* ~/ssh/id_ed25519 hold: "none" | "key" | "keycert" (key + -cert.pub) | "certonly" (ignored by the code)
HomeKinds == {"none", "key", "keycert", "certonly"}
RECURSIVE DiscFrom(_, _)
DiscFrom(home, k) == IF k > 6 THEN <<>>
                     ELSE (CASE home[k] = "key"     -> <<[pos |-> k, cert |-> FALSE]>>
                             [] home[k] = "keycert" -> <<[pos |-> k, cert |-> FALSE], [pos |-> k, cert |-> TRUE]>>
                             [] OTHER               -> <<>>) \o DiscFrom(home, k + 1)
Discovered(cf) == IF cf.look THEN DiscFrom(cf.home, 1) ELSE <<>>

B(f) == IF f \in Flags THEN BOOLEAN ELSE {FALSE}
Configs == { cf \in [gk : B("gk"), ga : B("ga"), pkey : B("pkey"), nfiles : 0..MaxFiles, agent : B("agent"),
                     look : B("look"), home : [1..6 -> HomeKinds], password : B("password"), passphrase : B("passphrase")] :
               /\ \A k \in 1..6 : cf.home[k] # "none" => k \in HomePos
               /\ Cardinality({k \in 1..6 : cf.home[k] # "none"}) <= MaxDisc
               /\ Len(DiscFrom(cf.home, 1)) <= MaxDisc + 1 }

\* the passphrase handed to the key loader: the explicit one, else the password, else none
PassArg(cf) == IF cf.passphrase THEN "passphrase" ELSE IF cf.password THEN "password" ELSE "none"

(* ---- call points ------------------------------------------------------------------ *)
\* [k: kind, a: first index, b: second index]
P(k, a, b) == [k |-> k, a |-> a, b |-> b]
End == P("end", 0, 0)
FromPw(cf, twof)    == IF Mutation = "kbd_even_with_password" /\ twof THEN P("kbd", 0, 0)
                       ELSE IF cf.password THEN P("pw", 0, 0) ELSE IF twof THEN P("kbd", 0, 0) ELSE End
FromDisc(cf, twof)  == IF ~twof /\ Len(Discovered(cf)) > 0 THEN P("dload", 1, 0) ELSE FromPw(cf, twof)
FromAgent(cf, twof) == IF (~twof \/ Mutation = "agent_after_twof") /\ cf.agent THEN P("agentlist", 0, 0) ELSE FromDisc(cf, twof)
FromFiles(cf, twof) == IF ~twof /\ cf.nfiles > 0 THEN P("load", 1, 1) ELSE FromAgent(cf, twof)
FromPkey(cf)        == IF cf.pkey THEN P("pkey", 0, 0) ELSE FromFiles(cf, FALSE)
FromGa(cf)          == IF cf.ga THEN P("ga", 0, 0) ELSE FromPkey(cf)
First(cf)           == IF Mutation = "password_first" /\ cf.password THEN P("pw", 0, 0)
                       ELSE IF cf.gk THEN P("gk", 0, 0) ELSE FromGa(cf)

\* which outcomes the environment may give at a call point
Outcomes(p, cf) ==
  CASE p.k \in {"gk", "ga"}          -> {"ok", "exc", "err"}
    [] p.k \in {"pkey", "fauth", "agent", "dauth"} -> {"ok", "other", "twof", "exc", "err"}
    [] p.k \in {"load", "dload"}     -> {"loaded", "exc", "io", "err"}
    [] p.k = "agentlist"             -> {"n0", "n1", "n2", "n3"}
    [] p.k \in {"pw", "kbd"}         -> {"ok", "exc", "err"}
    [] OTHER                         -> {}
NKeys(o) == CASE o = "n0" -> 0 [] o = "n1" -> 1 [] o = "n2" -> 2 [] OTHER -> 3

\* stage rank of a call point (the documented order)
Rank(p) == CASE p.k = "gk" -> 1 [] p.k = "ga" -> 2 [] p.k = "pkey" -> 3 [] p.k \in {"load", "fauth"} -> 4
             [] p.k \in {"agentlist", "agent"} -> 5 [] p.k \in {"dload", "dauth"} -> 6 [] p.k \in {"pw", "kbd"} -> 7
             [] OTHER -> 8

VARIABLES cfg,      \* the configuration
          pt,       \* the call point _auth is at ("end": about to raise; "done": finished)
          twof,     \* truthiness of the local two_factor
          nagent,   \* number of keys the agent listed (0 before the listing)
          saved,    \* index (in calls) of the call whose exception is in saved_exception, 0 = None
          calls,    \* Seq of [p: call point, o: outcome, pp: passphrase argument for loads]
          status    \* "running" | "returned" | "raised_saved" | "raised_nomethods" | "propagated"
vars == <<cfg, pt, twof, nagent, saved, calls, status>>

Done == P("done", 0, 0)

(* ---- the transition function: where the code goes after outcome o at call point p -- *)
\* result: [pt, twof, saved (TRUE = this call's exception is saved), status, nagent]
NextClass(cf, p, tw) == IF p.b < 3 THEN P("load", p.a, p.b + 1)
                        ELSE IF p.a < cf.nfiles THEN P("load", p.a + 1, 1) ELSE FromAgent(cf, tw)
\* FileLoopGoesOn: `break` leaves the class loop only - the next file is tried even when two_factor is set
NextFile(cf, p, tw)  == IF p.a < cf.nfiles /\ Mutation # "file_break_leaves_both" THEN P("load", p.a + 1, 1)
                        ELSE FromAgent(cf, tw)
NextAgentKey(cf, p, n, tw) == IF p.a < n THEN P("agent", p.a + 1, 0) ELSE FromDisc(cf, tw)
NextDisc(cf, p, tw)  == IF p.a < Len(Discovered(cf)) THEN P("dload", p.a + 1, 0) ELSE FromPw(cf, tw)

R(p, tw, sv, st, n) == [pt |-> p, twof |-> tw, saved |-> sv, status |-> st, nagent |-> n]
Returned(tw, n)   == R(Done, tw, FALSE, "returned", n)
Propagated(tw, n) == R(Done, tw, FALSE, "propagated", n)

After(cf, p, o, tw, n) ==
  CASE p.k = "gk" -> (CASE o = "ok" -> Returned(tw, n) [] OTHER -> R(FromGa(cf), tw, TRUE, "running", n))       \* except Exception
    [] p.k = "ga" -> (CASE o = "ok" -> Returned(tw, n) [] OTHER -> R(FromPkey(cf), tw, TRUE, "running", n))
    [] p.k = "pkey" ->
         (CASE o \in {"ok", "other"} -> Returned(FALSE, n)
            [] o = "twof" -> R(FromFiles(cf, TRUE), TRUE, FALSE, "running", n)
            [] o = "exc"  -> R(FromFiles(cf, tw), tw, TRUE, "running", n)
            [] OTHER      -> Propagated(tw, n))
    [] p.k = "load" ->
         (CASE o = "loaded" -> R(P("fauth", p.a, p.b), tw, FALSE, "running", n)
            [] o = "exc"    -> R(NextClass(cf, p, tw), tw, TRUE, "running", n)
            [] OTHER        -> Propagated(tw, n))                        \* IOError is not caught for key_filenames
    [] p.k = "fauth" ->
         (CASE o \in {"ok", "other"} -> Returned(FALSE, n)
            [] o = "twof" -> R(NextFile(cf, p, TRUE), TRUE, FALSE, "running", n)
            [] o = "exc"  -> R(NextClass(cf, p, tw), tw, TRUE, "running", n)
            [] OTHER      -> Propagated(tw, n))
    [] p.k = "agentlist" -> R(IF NKeys(o) > 0 THEN P("agent", 1, 0) ELSE FromDisc(cf, tw), tw, FALSE, "running", NKeys(o))
    [] p.k = "agent" ->
         (CASE o \in {"ok", "other"} -> Returned(FALSE, n)
            [] o = "twof" -> R(IF Mutation = "no_break_agent" THEN NextAgentKey(cf, p, n, TRUE) ELSE FromDisc(cf, TRUE),
                               TRUE, FALSE, "running", n)
            [] o = "exc"  -> R(NextAgentKey(cf, p, n, tw), tw, TRUE, "running", n)
            [] OTHER      -> Propagated(tw, n))
    [] p.k = "dload" ->
         (CASE o = "loaded"       -> R(P("dauth", p.a, 0), tw, FALSE, "running", n)
            [] o \in {"exc", "io"} -> R(NextDisc(cf, p, tw), tw, TRUE, "running", n)
            [] OTHER              -> Propagated(tw, n))
    [] p.k = "dauth" ->
         (CASE o \in {"ok", "other"} -> Returned(FALSE, n)
            [] o = "twof" -> R(FromPw(cf, TRUE), TRUE, FALSE, "running", n)
            [] o \in {"exc", "io"} -> R(NextDisc(cf, p, tw), tw, TRUE, "running", n)
            [] OTHER      -> Propagated(tw, n))
    [] p.k \in {"pw", "kbd"} ->
         (CASE o = "ok"  -> Returned(tw, n)
            [] o = "exc" -> R(IF Mutation = "password_first" THEN (IF cf.gk THEN P("gk", 0, 0) ELSE FromGa(cf)) ELSE End,
                              tw, TRUE, "running", n)
            [] OTHER     -> Propagated(tw, n))
    [] OTHER -> R(Done, tw, FALSE, status, n)

(* ---- the state machine -------------------------------------------------------------- *)
Init == /\ cfg \in Configs
        /\ pt = First(cfg) /\ twof = FALSE /\ nagent = 0 /\ saved = 0 /\ calls = <<>> /\ status = "running"

Answer(o) ==
  /\ pt.k \notin {"end", "done"} /\ o \in Outcomes(pt, cfg)
  /\ pt.k = "agentlist" => NKeys(o) <= MaxAgent
  /\ LET r == After(cfg, pt, o, twof, nagent) IN
       /\ calls' = Append(calls, [p |-> pt, o |-> o, pp |-> IF pt.k \in {"load", "dload"} THEN PassArg(cfg) ELSE "none"])
       /\ pt' = r.pt /\ twof' = r.twof /\ nagent' = r.nagent /\ status' = r.status
       /\ saved' = IF r.saved /\ ~(Mutation = "first_exception_kept" /\ saved # 0) THEN Len(calls) + 1 ELSE saved
  /\ UNCHANGED cfg

Raise == /\ pt.k = "end"
         /\ status' = IF saved # 0 THEN "raised_saved" ELSE "raised_nomethods"
         /\ pt' = Done
         /\ UNCHANGED <<cfg, twof, nagent, saved, calls>>

Next == (\E o \in {"ok", "other", "twof", "exc", "io", "err", "loaded", "n0", "n1", "n2", "n3"} : Answer(o)) \/ Raise
Spec == Init /\ [][Next]_vars

(* ---- what a user of connect() relies on (invariants of the transcription) -------------- *)
IsAuth(c)   == c.p.k \in {"gk", "ga", "pkey", "fauth", "agent", "dauth", "pw", "kbd"}
Caught(c)   == \/ c.o = "exc" /\ c.p.k \notin {"agentlist"}
               \/ c.o = "io" /\ c.p.k \in {"dload", "dauth"}
               \/ c.o = "err" /\ c.p.k \in {"gk", "ga"}
Success(c)  == IsAuth(c) /\ c.o \in {"ok", "other"}

TypeOK == /\ status \in {"running", "returned", "raised_saved", "raised_nomethods", "propagated"}
          /\ saved \in 0..Len(calls) /\ twof \in BOOLEAN
\* the documented order: explicit key, key files, agent, discoverable keys, then the password
OrderOK == \A i, j \in 1..Len(calls) : i < j => Rank(calls[i].p) <= Rank(calls[j].p)
\* nothing is offered after a method was accepted, and an accepted method ends _auth successfully
StopsAtSuccess == /\ \A i \in 1..Len(calls) : Success(calls[i]) => i = Len(calls)
                  /\ (status = "returned") = (Len(calls) > 0 /\ Success(calls[Len(calls)]))
\* the password / the interactive fallback is used at most once and is the last thing tried
SecretLast == \A i \in 1..Len(calls) : calls[i].p.k \in {"pw", "kbd"} => i = Len(calls)
\* the interactive fallback only answers a two-factor demand, and never when a password was given
KbdOnlyForTwoFactor == \A i \in 1..Len(calls) : calls[i].p.k = "kbd" =>
                          /\ ~cfg.password
                          /\ \E j \in 1..(i - 1) : calls[j].o = "twof"
\* once a key was accepted with a demand for a second factor, no agent or discovered key is offered any more
NoKeysAfterTwoFactor == \A i, j \in 1..Len(calls) :
                          (i < j /\ calls[i].o = "twof" /\ calls[i].p.k \in {"pkey", "agent", "dauth"})
                             => calls[j].p.k \in {"pw", "kbd"}
\* failure reports the most recent caught error, or "no methods" if nothing was ever tried and failed
RaisesLast == /\ status = "raised_saved" =>
                   /\ saved # 0 /\ Caught(calls[saved])
                   /\ \A j \in (saved + 1)..Len(calls) : ~Caught(calls[j])
              /\ status = "raised_nomethods" => \A j \in 1..Len(calls) : ~Caught(calls[j])
\* every load passes the passphrase, or the password standing in for it
LoadsUsePassphrase == \A i \in 1..Len(calls) : calls[i].p.k \in {"load", "dload"} => calls[i].pp = PassArg(cfg)

\* emitted for spec -> code replay: one case per complete behaviour
Emit == pt = Done => PrintT(<<"CASE", cfg, calls, status, saved>>)
=============================================================================
