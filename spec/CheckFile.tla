------------------------------ MODULE CheckFile ------------------------------
(* C32.  The "check-file" SFTP extension as served by SFTPServer._check_file      *)
(* (paramiko/sftp_server.py:291-356).                                             *)
(*                                                                                *)
(* Part 1 is the reference: which byte ranges of a file of `size` bytes must be   *)
(* hashed for a request (offset, length, block size).  Part 2 is the server's      *)
(* loop at the grain of its decision points (one action per statement group),     *)
(* with the handle free to return short reads (SFTPHandle.read: "up to length     *)
(* bytes").  A hash is modelled by what was fed to it: the sequence of file        *)
(* ranges passed to update(), adjacent ranges merged, so "the digest of block i    *)
(* is right" is "the ranges fed to hash object i are exactly <<[s_i, e_i)>>".      *)
EXTENDS Integers, Sequences, TLC

CONSTANTS MaxSize,     \* file sizes 0..MaxSize
          MaxOff,      \* offsets 0..MaxOff
          MaxLen,      \* lengths 0..MaxLen
          BlockSizes,  \* set of requested block sizes (may contain 0)
          ReadChunk,   \* the server's read granule (65536 in the code)
          MinBlock,    \* smallest admissible block size (256 in the code)
          ShortReads,  \* may the handle return fewer bytes than asked?
          FixLoop,     \* TRUE: offset advances by len(data) and a read never crosses the block end
          FixEof       \* TRUE: an empty read ends the range (EOF)

Min(a, b) == IF a < b THEN a ELSE b
Max(a, b) == IF a < b THEN b ELSE a

(* ------------------------------ part 1: reference ------------------------------ *)
\* the requested range ends at EOF when length = 0 or when it runs past EOF
RangeEnd(size, off, len) == IF len = 0 \/ off + len > size THEN size ELSE off + len
RangeLen(size, off, len) == Max(0, RangeEnd(size, off, len) - off)
\* block size 0 = one hash over the whole range
EffBlock(size, off, len, blk) == IF blk = 0 THEN RangeLen(size, off, len) ELSE blk
NBlocks(size, off, len, blk) ==
    LET n == RangeLen(size, off, len)  b == EffBlock(size, off, len, blk)
    IN IF n = 0 THEN 0 ELSE (n + b - 1) \div b
\* the consecutive blocks [s_i, e_i) of the requested range
SpecBlocks(size, off, len, blk) ==
    LET e == RangeEnd(size, off, len)  b == EffBlock(size, off, len, blk)
    IN [i \in 1..NBlocks(size, off, len, blk) |-> <<off + (i - 1) * b, Min(off + i * b, e)>>]
\* requests the statement does not speak about: a non-zero block size under the minimum, or "one hash"
\* (block size 0) over a range shorter than the minimum (the two documented rules conflict there)
Degenerate(size, off, len, blk) == EffBlock(size, off, len, blk) < MinBlock
EmptyRange(size, off, len)      == RangeLen(size, off, len) = 0
\* where the defects of the pinned code live; used for stable finding keys
Class(size, off, len, blk) ==
    IF len > 0 /\ off >= size THEN "start_past_eof"
    ELSE IF len > 0 /\ off + len > size THEN "length_past_eof"
    ELSE IF Min(EffBlock(size, off, len, blk), RangeLen(size, off, len)) > ReadChunk THEN "block_over_read_chunk"
    ELSE IF len = 0 THEN "to_eof" ELSE "inside"

\* the request carries a preference list of hash names; the server has md5 and sha1 (sftp_server.py:_hash_class)
Supported == {"md5", "sha1"}
RECURSIVE FirstSupported(_)
FirstSupported(names) == IF names = <<>> THEN "none"
                         ELSE IF Head(names) \in Supported THEN Head(names) ELSE FirstSupported(Tail(names))
Listed(names) == {names[i] : i \in 1..Len(names)}

(* ------------------------------ part 2: the server loop ------------------------------ *)
VARIABLES size, start, length, bsize,    \* the file and the request
          pc, len, blk,                  \* control; effective length / block size
          offset, count, blocklen, chunklen,
          cur,                           \* ranges fed to the current hash object (merged)
          out,                           \* per finished block: the ranges that were hashed
          answer                         \* "none" | "reply" | "status"
vars == <<size, start, length, bsize, pc, len, blk, offset, count, blocklen, chunklen, cur, out, answer>>
req  == <<size, start, length, bsize>>

Init == /\ size \in 0..MaxSize /\ start \in 0..MaxOff /\ length \in 0..MaxLen /\ bsize \in BlockSizes
        /\ pc = "entry" /\ len = 0 /\ blk = 0 /\ offset = 0 /\ count = 0 /\ blocklen = 0 /\ chunklen = 0
        /\ cur = <<>> /\ out = <<>> /\ answer = "none"

Feed(rs, a, b) == IF a = b THEN rs
                  ELSE IF rs # <<>> /\ rs[Len(rs)][2] = a THEN [rs EXCEPT ![Len(rs)] = <<rs[Len(rs)][1], b>>]
                  ELSE Append(rs, <<a, b>>)

Entry ==      \* if length == 0: length = st.st_size - start ; if block_size == 0: block_size = length
  /\ pc = "entry"
  /\ LET l == IF length = 0 THEN size - start ELSE length
         b == IF bsize = 0 THEN l ELSE bsize
     IN /\ len' = l /\ blk' = b
        /\ IF b < MinBlock THEN pc' = "done" /\ answer' = "status"      \* "Block size too small"
           ELSE pc' = "outer" /\ UNCHANGED answer
  /\ offset' = start
  /\ UNCHANGED <<req, count, blocklen, chunklen, cur, out>>

Outer ==      \* while offset < start + length:
  /\ pc = "outer"
  /\ IF offset < start + len
       THEN /\ blocklen' = Min(blk, start + len - offset)
            /\ chunklen' = Min(Min(blk, start + len - offset), ReadChunk)
            /\ count' = 0 /\ cur' = <<>> /\ pc' = "inner"
            /\ UNCHANGED <<answer>>
       ELSE /\ pc' = "done" /\ answer' = "reply"
            /\ UNCHANGED <<blocklen, chunklen, count, cur>>
  /\ UNCHANGED <<req, len, blk, offset, out>>

\* bytes a read of `n` at `o` can return
Avail(o, n) == Max(0, Min(n, size - o))
ReadLens(o, n) == IF ShortReads /\ Avail(o, n) > 0 THEN 1..Avail(o, n) ELSE {Avail(o, n)}
Ask == IF FixLoop THEN Min(chunklen, blocklen - count) ELSE chunklen

Inner ==      \* while count < blocklen: data = f.read(offset, chunklen); update; count += ..; offset += ..
  /\ pc = "inner"
  /\ IF count < blocklen
       THEN \E k \in ReadLens(offset, Ask) :
              IF FixEof /\ k = 0
                THEN /\ out' = (IF cur = <<>> THEN out ELSE Append(out, cur))     \* EOF: finish what was hashed
                     /\ pc' = "done" /\ answer' = "reply"
                     /\ UNCHANGED <<count, offset, cur>>
                ELSE /\ cur' = Feed(cur, offset, offset + k)
                     /\ count' = count + k
                     /\ offset' = offset + (IF FixLoop THEN k ELSE count + k)
                     /\ UNCHANGED <<pc, answer, out>>
       ELSE /\ out' = Append(out, cur) /\ pc' = "outer"
            /\ UNCHANGED <<count, offset, cur, answer>>
  /\ UNCHANGED <<req, len, blk, blocklen, chunklen>>

Next == Entry \/ Outer \/ Inner
Spec == Init /\ [][Next]_vars
FairSpec == Spec /\ WF_vars(Next)

(* ------------------------------ properties ------------------------------ *)
Expected == SpecBlocks(size, start, length, bsize)
\* C32: a reply carries, per block, the hash of exactly that block
HashesRight ==
  (pc = "done" /\ answer = "reply" /\ ~Degenerate(size, start, length, bsize))
     => /\ Len(out) = Len(Expected)
        /\ \A i \in 1..Len(out) : out[i] = <<Expected[i]>>
\* a request the statement covers with a non-empty range is not refused
NotRefused ==
  (pc = "done" /\ answer = "status") => (Degenerate(size, start, length, bsize) \/ EmptyRange(size, start, length))
\* "answers promptly": every read makes progress, so the loop is bounded by the range length
NoSpin == ~(pc = "inner" /\ count < blocklen /\ Avail(offset, Ask) = 0 /\ ~FixEof)
Bounded == offset <= start + len + MaxSize + MaxLen + MaxOff    \* keeps the faithful model finite
Terminates == <>(pc = "done")
\* emitted once per request for spec -> code replay
Emit == pc = "entry" => PrintT(<<"CASE", size, start, length, bsize, Expected,
                                  Class(size, start, length, bsize),
                                  Degenerate(size, start, length, bsize), EmptyRange(size, start, length)>>)
=============================================================================
