--------------------------- MODULE KeyFileFormat ---------------------------
(* C37.  How paramiko's private-key loaders walk a key file: which parse stage *)
(* reads which field of which container format, what type each field has and    *)
(* how a field of that type can be malformed.  One loader class (variable cls)  *)
(* is given a file holding a key of type kt in container format fmt; the loader *)
(* consumes a well-formed prefix of the file stage by stage and then meets ONE  *)
(* malformation (or a passphrase that does not fit).  The model records how the *)
(* load can come out: a key (the original one, another self-consistent one, or  *)
(* one whose halves disagree) or the class of the exception that escapes        *)
(* from_private_key / from_private_key_file.  The property is the pair of       *)
(* invariants FailureClassAllowed and HalvesAgree.                              *)
(*                                                                             *)
(* Code anchors: PKey._read_private_key (tag lines, dispatch on the tag),       *)
(* _read_private_key_pem (headers, base64, Proc-Type / DEK-Info, decryption),   *)
(* _read_private_key_openssh + _uint32_cstruct_unpack + _unpad_openssh (new     *)
(* format for RSAKey / ECDSAKey), RSAKey._decode_key, ECDSAKey._decode_key,     *)
(* Ed25519Key.__init__ / _parse_signing_key_data (its own walk of the format).  *)
EXTENDS Naturals, Sequences, FiniteSets, TLC

CONSTANTS Loaders,        \* subset of {"RSAKey", "ECDSAKey", "Ed25519Key"}: the class used to load (chosen in Init)
          Guarded,        \* TRUE  = the design the property asks for: whatever goes wrong while a file is read
                          \*         is reported as SSHException (PasswordRequiredException included);
                          \* FALSE = faithful to the pinned tree: codecs, decoders and crypto back ends raise
                          \*         their own classes and nothing converts them
          DerivesPublic   \* TRUE  = the public half of a loaded key is derived from (or verified against) the
                          \*         private half;
                          \* FALSE = a loader that believes the file's copy of the public half

(* ------------------------------------------------------------------ grammar *)
KeyTypes == {"rsa", "ecdsa256", "ecdsa384", "ecdsa521", "ed25519"}
Formats  == {"pem", "pem_enc", "openssh", "openssh_enc"}
AllLoaders == {"RSAKey", "ECDSAKey", "Ed25519Key"}
Natural(kt) == IF kt = "rsa" THEN "RSAKey" ELSE IF kt = "ed25519" THEN "Ed25519Key" ELSE "ECDSAKey"
IsPem(fmt) == fmt \in {"pem", "pem_enc"}
Enc(fmt)   == fmt \in {"pem_enc", "openssh_enc"}
Exists(kt, fmt) == kt = "ed25519" => ~IsPem(fmt)      \* there is no traditional PEM form of an Ed25519 key

\* a field: name, type, layer.  Layers: "text" (lines of the file), "der" (ASN.1 inside a PEM body, after
\* decryption), "outer" (the openssh-key-v1 container), "private" (its private section, after decryption)
F(n, t, l) == [n |-> n, t |-> t, l |-> l]

TextFields(fmt) ==
  <<F("begin", "tagline", "text")>> \o
  (IF fmt = "pem_enc" THEN <<F("proc_type", "header", "text"), F("dek_info", "dekinfo", "text")>> ELSE <<>>) \o
  <<F("body", IF fmt = "pem_enc" THEN "base64ct" ELSE "base64", "text"), F("end", "tagline", "text")>>

DerFields(kt) ==
  IF kt = "rsa"
  THEN <<F("seq", "der_seq", "der"), F("version", "der_int", "der"), F("n", "der_int", "der"), F("e", "der_int", "der"),
         F("d", "der_int", "der"), F("p", "der_int", "der"), F("q", "der_int", "der"), F("dmp1", "der_int", "der"),
         F("dmq1", "der_int", "der"), F("iqmp", "der_int", "der")>>
  ELSE <<F("seq", "der_seq", "der"), F("version", "der_int", "der"), F("privkey", "der_octets", "der"),
         F("params", "der_oid", "der"), F("pubkey", "der_bits", "der")>>

OuterFields(fmt) ==
  <<F("magic", "magic", "outer"), F("ciphername", "name", "outer"), F("kdfname", "name", "outer"),
    F("kdfoptions", "kdfopts", "outer"), F("nkeys", "uint32", "outer"), F("pubblob", "pubblob", "outer"),
    F("privblob", IF fmt = "openssh_enc" THEN "cipherblob" ELSE "privsection", "outer")>>

KeyFields(kt) ==
  CASE kt = "rsa"     -> <<F("n", "mpint", "private"), F("e", "mpint", "private"), F("d", "mpint", "private"),
                           F("iqmp", "mpint", "private"), F("p", "mpint", "private"), F("q", "mpint", "private")>>
    [] kt = "ed25519" -> <<F("pub", "bytes32", "private"), F("privpub", "bytes64", "private")>>
    [] OTHER          -> <<F("curve", "name", "private"), F("point", "ecpoint", "private"),
                           F("scalar", "mpint", "private")>>

PrivFields(kt) ==
  <<F("checkint1", "checkint", "private"), F("checkint2", "checkint", "private"), F("keytype", "name", "private")>> \o
  KeyFields(kt) \o <<F("comment", "string", "private"), F("padding", "pad", "private")>>

GrammarDef(kt, fmt) ==
  TextFields(fmt) \o (IF IsPem(fmt) THEN DerFields(kt) ELSE OuterFields(fmt) \o PrivFields(kt))

Pairs == {<<kt, fmt>> \in KeyTypes \X Formats : Exists(kt, fmt)}
GrammarOf == [p \in Pairs |-> GrammarDef(p[1], p[2])]
Grammar(kt, fmt) == GrammarOf[<<kt, fmt>>]
NamesOf(kt, fmt)  == [i \in 1..Len(Grammar(kt, fmt)) |-> Grammar(kt, fmt)[i].n]
TypesOf(kt, fmt)  == [i \in 1..Len(Grammar(kt, fmt)) |-> Grammar(kt, fmt)[i].t]
LayersOf(kt, fmt) == [i \in 1..Len(Grammar(kt, fmt)) |-> Grammar(kt, fmt)[i].l]

(* ------------------------------------------------------- malformation classes *)
Cut      == {"trunc_before", "trunc_inside"}
StringCl == Cut \cup {"len_beyond_end", "len_max", "empty", "flip"}
B64      == {"invalid_char", "non_ascii_char", "bad_padding", "cut_mid_quantum", "line_deleted", "line_duplicated",
             "lines_swapped", "empty", "blank_lines", "single_line", "crlf_lines", "not_base64"}
Ct       == {"ct_flip_first", "ct_flip_last", "ct_not_block_multiple", "ct_drop_block", "ct_empty"}
\* byte-level edits at a position drawn uniformly inside the field's region of the file (the quantifier, literally)
Rand     == {"rand_flip", "rand_delete", "rand_truncate", "rand_splice"}

Classes(t) ==
  CASE t = "tagline"  -> {"missing", "duplicated", "garbled", "other_tag", "generic_tag", "lowercase", "leading_space",
                          "trailing_text", "short_dashes"}
    [] t = "header"   -> {"missing", "duplicated", "garbled_name", "bad_value", "no_space", "empty_value"}
    [] t = "dekinfo"  -> {"missing", "duplicated", "garbled_name", "no_space", "unknown_cipher", "other_cipher",
                          "salt_non_hex", "salt_odd", "salt_short", "salt_long", "salt_empty", "no_comma", "extra_comma"}
    [] t = "base64"   -> B64
    [] t = "base64ct" -> B64 \cup Ct
    [] t = "magic"    -> {"wrong", "old_version", "trunc_inside", "trunc_before"}
    [] t = "name"     -> StringCl \cup {"wrong_value", "other_valid", "bad_utf8"}
    [] t = "kdfopts"  -> StringCl \cup {"salt_empty", "salt_short", "rounds_zero", "rounds_missing", "rounds_huge",
                                        "present_for_none"}
    [] t = "uint32"   -> Cut \cup {"zero", "two", "max"}
    [] t = "checkint" -> Cut \cup {"mismatch", "both_changed"}
    [] t = "pubblob"  -> StringCl \cup {"swapped", "other_type", "garbage", "inner_truncated", "type_bad_utf8"}
    [] t = "privsection" -> {"trunc_before", "len_beyond_end", "len_max", "len_short", "empty", "not_block_multiple"}
    [] t = "cipherblob"  -> {"trunc_before", "len_beyond_end", "len_max", "len_short", "empty"} \cup Ct
    [] t = "mpint"    -> StringCl \cup {"zero", "one", "negative", "swapped", "plus_one"}
    [] t = "ecpoint"  -> StringCl \cup {"swapped", "off_curve", "wrong_length", "infinity", "compressed"}
    [] t = "bytes32"  -> StringCl \cup {"swapped", "wrong_length", "zeros"}
    [] t = "bytes64"  -> StringCl \cup {"swapped", "swapped_seed", "swapped_pub", "wrong_length", "zeros"}
    [] t = "string"   -> StringCl \cup {"bad_utf8", "long"}
    [] t = "pad"      -> {"missing", "wrong_sequence", "too_long", "printable_last", "zero_bytes", "extra_block"}
    [] t = "der_seq"  -> {"wrong_tag", "len_beyond_end", "len_short", "len_indefinite", "len_huge", "trailing_bytes"}
    [] t = "der_int"  -> {"flip", "swapped", "zero", "negative", "empty", "wrong_tag", "trunc_inside", "len_beyond_end",
                          "plus_one"}
    [] t = "der_octets" -> {"flip", "swapped", "zero", "empty", "wrong_length", "wrong_tag", "trunc_inside",
                            "len_beyond_end"}
    [] t = "der_oid"  -> {"other_curve", "unknown_oid", "missing", "wrong_tag", "trunc_inside"}
    [] t = "der_bits" -> {"flip", "swapped", "missing", "off_curve", "wrong_length", "wrong_tag", "trunc_inside"}

\* whole-file classes (field index 0)
FileCl == {"empty", "whitespace_only", "leading_garbage", "trailing_garbage", "crlf", "cr_only", "non_utf8_byte",
           "nul_byte", "bom", "doubled", "no_final_newline", "foreign_format", "public_key_file", "splice_other_file"}

\* how the passphrase given to the loader relates to the file
PwFit(fmt)  == IF Enc(fmt) THEN "right" ELSE "none"                       \* what a well-behaved caller passes
PwAll(fmt)  == IF Enc(fmt) THEN {"right", "none", "wrong", "empty"} ELSE {"none", "unneeded", "empty"}

(* ------------------------------------------------------------- stage machine *)
\* the stages a loader goes through, in order, for a well-formed file; a loader of the wrong class stops where it
\* notices (PEM: at the dispatch on the tag line; new format: Ed25519Key at the type name in the public blob,
\* RSAKey / ECDSAKey only when the type-specific fields do not parse)
Prelude == <<"read", "begin", "end", "dispatch">>
PathDef(cls, kt, fmt) ==
  IF IsPem(fmt) THEN
    IF cls # Natural(kt) THEN Prelude
    ELSE Prelude \o <<"headers", "body">> \o (IF Enc(fmt) THEN <<"dek", "passphrase", "decrypt">> ELSE <<>>) \o
         <<"der", "keyclass">>
  ELSE IF cls = "Ed25519Key" THEN      \* Ed25519Key: _read_private_key_pem (tag = "OPENSSH") + _parse_signing_key_data
    Prelude \o <<"headers", "body", "magic", "kdf_header">> \o (IF Enc(fmt) THEN <<"passphrase", "kdf">> ELSE <<>>) \o
    <<"cipher", "pubblob">> \o
    (IF kt = "ed25519"
     THEN <<"privblob">> \o (IF Enc(fmt) THEN <<"decrypt">> ELSE <<>>) \o <<"unpad", "checkints", "keyfields", "comment">>
     ELSE <<>>)
  ELSE                                 \* RSAKey / ECDSAKey: _read_private_key_openssh + _decode_key
    Prelude \o <<"body", "magic", "kdf_header", "blobs">> \o
    (IF Enc(fmt) THEN <<"cipher", "passphrase", "kdf", "decrypt">> ELSE <<>>) \o <<"checkints", "unpad", "keyfields">>

Triples == {<<cls, kt, fmt>> \in AllLoaders \X KeyTypes \X Formats : Exists(kt, fmt)}
PathOf == [t \in Triples |-> PathDef(t[1], t[2], t[3])]
Path(cls, kt, fmt) == PathOf[<<cls, kt, fmt>>]
Stages == {"read", "begin", "end", "dispatch", "headers", "body", "dek", "passphrase", "decrypt", "der", "keyclass",
           "magic", "kdf_header", "blobs", "kdf", "cipher", "pubblob", "privblob", "unpad", "checkints", "keyfields",
           "comment", "failed", "loaded"}

\* the stage in which loader class cls consumes the field called n (layer l)
FieldStage(cls, n, l) ==
  CASE n = "begin" -> "begin"
    [] n = "end"   -> "end"
    [] n \in {"proc_type", "dek_info"} -> "dek"
    [] n = "body"  -> "body"
    [] l = "der"   -> "der"
    [] n = "magic" -> "magic"
    [] n \in {"ciphername", "kdfname", "kdfoptions", "nkeys"} -> "kdf_header"
    [] n = "pubblob"  -> IF cls = "Ed25519Key" THEN "pubblob" ELSE "blobs"
    [] n = "privblob" -> IF cls = "Ed25519Key" THEN "privblob" ELSE "blobs"
    [] n \in {"checkint1", "checkint2"} -> "checkints"
    [] n = "keytype" -> IF cls = "Ed25519Key" THEN "keyfields" ELSE "checkints"
    [] n = "comment" -> IF cls = "Ed25519Key" THEN "comment" ELSE "keyfields"   \* RSAKey / ECDSAKey never read it
    [] n = "padding" -> "unpad"
    [] OTHER -> "keyfields"

InPath(cls, kt, fmt, s) == LET p == Path(cls, kt, fmt) IN \E k \in 1..Len(p) : p[k] = s

Case(s, i, c, pw) == [stage |-> s, idx |-> i, class |-> c, pw |-> pw]

\* the malformations of field f (index i) of the (kt, fmt) grammar, met in stage s, with the passphrase relation
FieldCases(fmt, f, i, s) ==
  {Case(s, i, c, PwFit(fmt)) : c \in Classes(f.t) \cup Rand}
  \cup (IF Enc(fmt) /\ f.l \in {"text", "outer"}
        THEN {Case(s, i, c, pw) : c \in {"trunc_inside", "flip", "rand_flip"} \cap (Classes(f.t) \cup Rand),
                                  pw \in {"none", "wrong"}}
        ELSE {})

FileCases(fmt) ==
  {Case("read", 0, c, PwFit(fmt)) : c \in FileCl \cup Rand}    \* Rand at index 0: an edit in a region this loader never reads
  \cup {Case(IF Enc(fmt) THEN "passphrase" ELSE "read", 0, "intact", pw) : pw \in PwAll(fmt)}

\* everything that can go wrong in stage s of loader class cls on a (kt, fmt) file
StageCases(cls, kt, fmt, s) ==
  LET g == Grammar(kt, fmt) IN
  UNION {FieldCases(fmt, g[i], i, s) : i \in {j \in 1..Len(g) : FieldStage(cls, g[j].n, g[j].l) = s}}
  \cup {k \in FileCases(fmt) : k.stage = s}

\* membership in the union of StageCases over the loader's path, as a predicate (TypeOK checks that every case
\* Inject offers satisfies it; the trace spec uses it to recognise a run's case)
InModel(c, t, f, k) ==
  /\ <<c, t, f>> \in Triples /\ InPath(c, t, f, k.stage)
  /\ IF k.idx = 0
     THEN \/ k.class \in FileCl \cup Rand /\ k.stage = "read" /\ k.pw = PwFit(f)
          \/ k.class = "intact" /\ k.stage = (IF Enc(f) THEN "passphrase" ELSE "read") /\ k.pw \in PwAll(f)
     ELSE /\ k.idx \in 1..Len(Grammar(t, f))
          /\ LET g == Grammar(t, f)[k.idx] IN
               /\ k.stage = FieldStage(c, g.n, g.l)
               /\ k.class \in Classes(g.t) \cup Rand
               /\ \/ k.pw = PwFit(f)
                  \/ /\ Enc(f) /\ g.l \in {"text", "outer"} /\ k.pw \in {"none", "wrong"}
                     /\ k.class \in {"trunc_inside", "flip", "rand_flip"}

\* the fixed part of every run of the check, whatever the tier and the seed: the right loader class, every field
\* of every container cut off inside / swapped with another key's value / with a length running past the end /
\* not UTF-8 / replaced by another valid name / set to 1, and every passphrase relation on the intact file
Core(cls, kt, fmt, k) ==
  \/ /\ cls = Natural(kt)
     /\ \/ k.idx > 0 /\ k.pw = PwFit(fmt)
           /\ k.class \in {"trunc_inside", "swapped", "len_beyond_end", "bad_utf8", "mismatch", "wrong_sequence", "salt_non_hex",
                           "ct_not_block_multiple", "non_ascii_char", "other_valid", "one"}
        \/ k.idx = 0 /\ k.class \in {"intact", "empty", "non_utf8_byte"}
  \* ... and a tag line that names the loader class in use over a body of another key type
  \/ cls # Natural(kt) /\ k.idx > 0 /\ k.class = "other_tag" /\ Grammar(kt, fmt)[k.idx].n = "begin"

(* --- which files can still yield a key *)
\* classes after which the loader cannot succeed (conformance predictions only)
MustFail(kt, fmt, k) ==
  \/ k.idx = 0 /\ k.class \in {"empty", "whitespace_only", "foreign_format", "public_key_file"}
  \/ k.idx = 0 /\ k.class = "intact" /\ Enc(fmt) /\ k.pw \in {"none", "wrong", "empty"}
  \/ k.idx > 0 /\ LET f == Grammar(kt, fmt)[k.idx] IN
       \/ f.t = "magic" /\ k.class \in {"wrong", "old_version"}
       \/ f.t = "checkint" /\ k.class = "mismatch"
       \/ f.n = "begin" /\ k.class \in {"missing", "garbled", "generic_tag", "lowercase"}
\* classes that may turn the file into the file of ANOTHER well-formed key (new private scalar / seed / DER integer)
MayYieldOther(kt, fmt, k) ==
  \/ k.class \in Rand \cup {"splice_other_file", "doubled", "leading_garbage"}
  \/ k.idx > 0 /\ LET f == Grammar(kt, fmt)[k.idx] IN
        f.t \in {"mpint", "der_int", "der_octets", "bytes64", "base64", "der_oid", "name"}
        /\ k.class \in {"flip", "swapped", "swapped_seed", "plus_one", "zero", "one", "negative", "other_curve", "other_valid",
                        "line_deleted", "lines_swapped", "line_duplicated", "wrong_length", "empty", "len_beyond_end",
                        "len_max", "trunc_inside", "cut_mid_quantum"}
\* classes that put one key's public half next to another key's private half
HalfSwaps == {"swapped", "swapped_seed", "swapped_pub"}
HalvesCase(kt, fmt, k) ==
  k.idx > 0 /\ k.class \in HalfSwaps
  /\ Grammar(kt, fmt)[k.idx].n \in {"pubblob", "n", "e", "d", "p", "q", "iqmp", "point", "scalar", "pub", "privpub",
                                    "privkey", "pubkey", "dmp1", "dmq1"}

(* --- how a malformation comes out of the pinned tree's decoders (used when ~Guarded and as the prediction the trace
   spec compares observations with) *)
\* the precise predictions: this case surfaces as exactly this foreign class ("-" = no precise prediction)
SharpClass(cls, kt, fmt, k) ==
  IF k.idx = 0 THEN
     (IF k.class = "non_utf8_byte" THEN "UnicodeDecodeError"                  \* open(filename, "r").readlines()
      ELSE IF k.class = "intact" /\ k.pw = "empty" /\ fmt = "openssh_enc" /\ cls # "Ed25519Key" THEN "ValueError"  \* bcrypt.kdf(b"")
      ELSE "-")
  ELSE LET f == Grammar(kt, fmt)[k.idx] IN
    CASE k.pw # PwFit(fmt) -> "-"
      [] f.t = "dekinfo" /\ k.class \in {"salt_non_hex", "salt_odd"}                  -> "Error"          \* binascii.unhexlify
      [] f.t = "dekinfo" /\ k.class \in {"salt_short", "salt_long", "salt_empty"}     -> "ValueError"     \* IV size
      [] f.t = "base64ct" /\ k.class = "ct_not_block_multiple"                        -> "ValueError"     \* decryptor.finalize()
      [] f.t = "kdfopts" /\ k.class \in {"salt_empty", "rounds_zero"} /\ fmt = "openssh_enc" /\ cls = Natural(kt)
                                                                                     -> "ValueError"     \* bcrypt.kdf
      [] f.n \in {"ciphername", "kdfname"} /\ k.class = "bad_utf8" /\ cls = "Ed25519Key" -> "UnicodeDecodeError"  \* get_text
      [] f.n = "ciphername" /\ k.class = "bad_utf8" /\ fmt = "openssh_enc" /\ cls # "Ed25519Key"
                                                                                     -> "UnicodeDecodeError"  \* cipher.decode
      [] cls = "Ed25519Key" /\ kt = "ed25519" /\ f.n \in {"pub", "pubblob"} /\ k.class = "swapped" -> "AssertionError"
      [] cls = "Ed25519Key" /\ kt = "ed25519" /\ f.n = "privpub" /\ k.class \in {"swapped", "swapped_seed", "swapped_pub"}
                                                                                     -> "AssertionError"
      [] cls = "RSAKey" /\ kt = "rsa" /\ f.l = "private" /\ f.n \in {"p", "q"} /\ k.class = "one" -> "ZeroDivisionError"
      [] cls = "RSAKey" /\ kt = "rsa" /\ f.l = "private" /\ f.t = "mpint" /\ k.class \in {"swapped", "plus_one"} /\ f.n # "e"
                                                                                     -> "ValueError"     \* RSAPrivateNumbers
      [] OTHER -> "-"
\* the coarse prediction: foreign classes that the decoders below this field's parse stage are able to raise
EdRaw  == {"UnicodeDecodeError", "AssertionError", "ValueError", "IndexError", "TypeError", "KeyError"}
RsaRaw == {"ValueError", "ZeroDivisionError", "TypeError", "OverflowError", "IndexError", "UnicodeDecodeError"}
EcRaw  == {"ValueError", "IndexError", "UnicodeDecodeError"}
BinRaw(cls) == IF cls = "Ed25519Key" THEN EdRaw ELSE IF cls = "RSAKey" THEN RsaRaw ELSE EcRaw
RawSet(cls, kt, fmt, k) ==
  (IF SharpClass(cls, kt, fmt, k) = "-" THEN {} ELSE {SharpClass(cls, kt, fmt, k)}) \cup
  (IF k.idx = 0 THEN
     (IF k.class \in Rand \cup {"splice_other_file", "doubled", "nul_byte", "leading_garbage"}
         \/ (k.class = "intact" /\ k.pw \in {"wrong", "empty"})
      THEN BinRaw(cls) \cup {"Error", "AssertionError", "AttributeError"} ELSE {})
   ELSE LET f == Grammar(kt, fmt)[k.idx] IN
     CASE k.class \in Rand -> BinRaw(cls) \cup {"Error", "AssertionError", "AttributeError"}
       [] f.l = "der" -> {}                                        \* load_der_private_key is wrapped by both _decode_key
       [] f.t = "tagline" -> IF k.class \in {"other_tag", "missing", "garbled", "duplicated"}
                             THEN BinRaw(cls) \cup {"AssertionError", "AttributeError"} ELSE {}
       [] f.t \in {"header", "dekinfo"} -> {"Error", "ValueError"}
       [] f.t = "base64ct" -> {"ValueError"}
       [] f.t = "base64" -> IF IsPem(fmt) THEN {} ELSE BinRaw(cls)
       [] OTHER -> BinRaw(cls))                                    \* container and private section of the new format

AllowedClasses == {"SSHException", "PasswordRequiredException"}
Loads == {"loaded_same", "loaded_other", "loaded_mismatch"}

Outcomes(cls, kt, fmt, k) ==
  {"SSHException"}
  \cup (IF k.pw \in {"none", "empty"} /\ Enc(fmt) THEN {"PasswordRequiredException"} ELSE {})
  \cup (IF MustFail(kt, fmt, k) THEN {} ELSE {"loaded_same"})
  \cup (IF MayYieldOther(kt, fmt, k) THEN {"loaded_other"} ELSE {})
  \cup (IF ~DerivesPublic /\ HalvesCase(kt, fmt, k) THEN {"loaded_mismatch"} ELSE {})
  \cup (IF ~Guarded THEN RawSet(cls, kt, fmt, k) ELSE {})

VARIABLES cls,       \* the loader class in use; fixed by Init
          kt, fmt,   \* what the file holds and in which container; fixed by Init
          pos,       \* index into Path(cls, kt, fmt): the stage the loader is in
          inj,       \* the one malformation met so far (<<>> = none yet)
          surfaced   \* how the load can come out: subset of Loads \cup exception class names ({} while parsing)
vars == <<cls, kt, fmt, pos, inj, surfaced>>

Stage == Path(cls, kt, fmt)[pos]

Init == /\ cls \in Loaders /\ kt \in KeyTypes /\ fmt \in Formats /\ Exists(kt, fmt)
        /\ pos = 1 /\ inj = <<>> /\ surfaced = {}

\* the stage's fields are all well-formed: the loader moves on; after the last stage the key is the file's key
\* (a loader of the wrong class ends in its type check)
WellFormed ==
  /\ inj = <<>> /\ surfaced = {} /\ UNCHANGED <<cls, kt, fmt, inj>>
  /\ IF pos < Len(Path(cls, kt, fmt))
     THEN pos' = pos + 1 /\ surfaced' = {}
     ELSE pos' = pos /\ surfaced' = (IF cls = Natural(kt) THEN {"loaded_same"} ELSE {"SSHException"})

\* the stage meets a malformed field (or the passphrase does not fit): the load ends there, one way or another
Inject ==
  /\ inj = <<>> /\ surfaced = {}
  /\ \E k \in StageCases(cls, kt, fmt, Stage) :
       /\ inj' = k
       /\ surfaced' = Outcomes(cls, kt, fmt, k)
  /\ UNCHANGED <<cls, kt, fmt, pos>>

Next == WellFormed \/ Inject
Spec == Init /\ [][Next]_vars

(* ------------------------------------------------------------------ property *)
\* MRO-based: a surfaced class is fine iff it is, or derives from, SSHException (PasswordRequiredException does)
Allowed(mro) == \E j \in 1..Len(mro) : mro[j] \in AllowedClasses
Failures == surfaced \ Loads
FailureClassAllowed == Failures \subseteq AllowedClasses       \* C37, first half, on the model
HalvesAgree == "loaded_mismatch" \notin surfaced                \* C37, second half, on the model
\* a file that was not touched loads as the key it holds
IntactLoads == (inj = <<>> /\ surfaced # {} /\ cls = Natural(kt)) => surfaced = {"loaded_same"}

TypeOK == /\ cls \in Loaders /\ kt \in KeyTypes /\ fmt \in Formats /\ Exists(kt, fmt)
          /\ pos \in 1..Len(Path(cls, kt, fmt)) /\ Stage \in Stages
          /\ (inj # <<>> => InModel(cls, kt, fmt, inj) /\ inj.stage = Stage)
          /\ (inj # <<>> /\ inj.idx > 0 => inj.idx \in 1..Len(Grammar(kt, fmt)))

\* spec -> code: the grammar of every (key type, format) once, then one CASE per abstract case with its Core flag
Emit == /\ (pos = 1 /\ inj = <<>> /\ cls = (CHOOSE c \in Loaders : TRUE)) =>
             PrintT(<<"GRAMMAR", kt, fmt, NamesOf(kt, fmt), TypesOf(kt, fmt), LayersOf(kt, fmt)>>)
        /\ (pos = 1 /\ inj = <<>>) => PrintT(<<"PATH", cls, kt, fmt, Path(cls, kt, fmt)>>)
        /\ (inj # <<>>) =>
             PrintT(<<"CASE", cls, kt, fmt, inj.stage, inj.idx, inj.class, inj.pw, Core(cls, kt, fmt, inj)>>)
=============================================================================
