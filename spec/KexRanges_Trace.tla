-------------------------- MODULE KexRanges_Trace --------------------------
(* code -> spec for C08.  One record = one real handshake in which the man in the   *)
(* middle replaced the value the victim receives (harness/drivers/kex.py:           *)
(* run_range_case).  `val` is the model value the wire value was rendered from      *)
(* (model integer, class name, or modulus size).  Observed on the victim:            *)
(*   set_kh     Transport._set_K_H ran (a key was derived from the value)            *)
(*   newkeys    the victim sent NEWKEYS                                              *)
(*   continued  group: the client answered with KEXDH_GEX_INIT                       *)
(*   active     the victim's transport was still active when both threads had        *)
(*              settled                                                              *)
EXTENDS KexRanges, Sequences, Json, IOUtils, TLCExt
Batch == JsonDeserialize(IOEnv.TRACE_FILE)
VARIABLES tid, l, bad
tvars == <<tid, l, bad, vars>>
R == Batch[tid]

TInit == tid \in 1..Len(Batch) /\ l = 1 /\ bad = {}
         /\ fam = R.fam /\ victim = R.victim /\ kind = R.kind /\ val = R.val /\ phase = "received"

Clause(ok, name) == IF ok THEN {} ELSE {name}

TNext == /\ l = 1 /\ l' = 2 /\ tid' = tid
         /\ UNCHANGED <<fam, victim, kind, val>>
         /\ phase' = IF R.newkeys THEN "newkeys_sent" ELSE IF R.set_kh THEN "derived"
                     ELSE IF kind = "group" /\ R.continued THEN "continued" ELSE "failed"
         /\ LET ok == Valid(fam, kind, val)
            IN  bad' = Clause(NoDeriveP(ok, R.set_kh), "P_invalid_value_derived_keys")
                       \cup Clause(NoNewkeysP(ok, R.newkeys), "P_invalid_value_newkeys_sent")
                       \cup Clause(FailsP(ok, R.active), "P_invalid_value_handshake_not_failed")
                       \cup Clause(kind = "group" => NoContinueP(ok, R.continued), "P_out_of_range_group_accepted")
                       \cup Clause(ok => (IF kind = "group" THEN R.continued ELSE R.set_kh), "C_valid_value_rejected")
                       \cup Clause((IF kind = "group" THEN R.continued ELSE R.set_kh) = Accepts(fam, kind, val),
                                   "C_differs_from_model")
TSpec == TInit /\ [][TNext]_tvars
Report == /\ (bad # {} => PrintT(<<"VERDICT", tid, bad>>))
          /\ (l = 2 => PrintT(<<"DONE", tid>>))
=============================================================================
