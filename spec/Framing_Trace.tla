---------------------------- MODULE Framing_Trace ----------------------------
(* code -> spec for C03: one record per packet a real Packetizer handed to the    *)
(* socket, as read by the independent reader (harness/drivers/packet.py Opener):  *)
(*   mode, b, mac     framing mode, cipher block size, negotiated MAC/tag length  *)
(*   n                payload length (uncompressed suites: length of the message  *)
(*                    given to send_message; compressed: length of the bytes that *)
(*                    inflate to it), contents_ok = payload is that message       *)
(*   len_field, padlen, raw_len   read from the bytes / the decrypted packet      *)
(*   mac_ok           the MAC / tag verifies over seqno || packet                 *)
EXTENDS FramingDefs, Sequences, Json, IOUtils, TLC, TLCExt
Batch == JsonDeserialize(IOEnv.TRACE_FILE)
VARIABLES tid, l, bad
tvars == <<tid, l, bad>>
R == Batch[tid]
S(c, name) == IF c THEN {name} ELSE {}
TInit == tid \in 1..Len(Batch) /\ l = 1 /\ bad = {}
TNext == /\ l = 1 /\ l' = 2 /\ tid' = tid
         /\ bad' = S(~PadRange(R), "P_pad_range")
                   \cup S(~(LenConsistent(R) /\ R.contents_ok), "P_len_field")
                   \cup S(~BlockAligned(R), "P_block")
                   \cup S(~MacLen(R), "P_mac_len")
                   \cup S(R.padlen # Pad(R.n, R.b, R.mode), "C_pad_formula")   \* RFC allows more padding
                   \cup S(~R.mac_ok, "C_mac_value")
TSpec == TInit /\ [][TNext]_tvars
Report == /\ (bad # {} => PrintT(<<"VERDICT", tid, bad>>))
          /\ (l = 2 => PrintT(<<"DONE", tid>>))
=============================================================================
