--------------------------- MODULE SftpServerProto ---------------------------
(* C30, server half.  The request loop of SFTPServer (sftp_server.py:136-162,      *)
(* _process 376-534): requests are served strictly one at a time; every request    *)
(* must get exactly one response packet with its own id and a type that is valid   *)
(* for the request; the loop must keep serving.                                     *)
(*                                                                                  *)
(* Handles are tokens 1, 2, ... in order of issue (the code issues "hx<n>");        *)
(* token 0 stands for a string that was never issued.  A handle-taking request is   *)
(* `valid` when its token is in the table the code looks it up in.                  *)
EXTENDS Integers, Sequences, FiniteSets, TLC

CONSTANTS MaxReqs,        \* requests per behaviour
          MaxHandles,     \* handle tokens 0..MaxHandles may be named by a request
          FixFsetstat,    \* TRUE: FSETSTAT on an unknown handle is answered with a STATUS packet
          FixCheckFile,   \* TRUE: check-file always terminates (see CheckFile.tla)
          HandleFaults,   \* may an operation of the served handle (read / write / stat / chattr / close) raise?
          ReplyBeforeClose \* mutation: CLOSE of a file handle is acknowledged before SFTPHandle.close() is called

Kinds == {"open", "close", "read", "write", "lstat", "fstat", "setstat", "fsetstat", "opendir", "readdir",
          "remove", "mkdir", "rmdir", "realpath", "stat", "rename", "readlink", "symlink",
          "ext_check_file", "ext_posix_rename", "ext_other", "unknown"}
Types == {"STATUS", "HANDLE", "DATA", "NAME", "ATTRS", "EXTENDED_REPLY", "OTHER"}

NeedsFile == {"read", "write", "fstat", "fsetstat", "ext_check_file"}
NeedsDir  == {"readdir"}
NeedsAny  == {"close"}
TakesHandle == NeedsFile \cup NeedsDir \cup NeedsAny

\* the response type a successful request of each kind carries (failures are always STATUS)
Success(kind) == CASE kind \in {"open", "opendir"}               -> {"HANDLE"}
                   [] kind = "read"                              -> {"DATA"}
                   [] kind \in {"lstat", "fstat", "stat"}        -> {"ATTRS"}
                   [] kind \in {"readdir", "realpath", "readlink"} -> {"NAME"}
                   [] kind = "ext_check_file"                    -> {"EXTENDED_REPLY"}
                   [] OTHER                                      -> {}
Valid(kind, h, fs, ds) == /\ (kind \in NeedsFile => h \in fs)
                          /\ (kind \in NeedsDir  => h \in ds)
                          /\ (kind \in NeedsAny  => h \in fs \cup ds)
\* C30: status for failures, including invalid handles and unsupported operations
Allowed(kind, valid) == {"STATUS"} \cup (IF valid THEN Success(kind) ELSE {})

VARIABLES files, dirs, nexth,     \* the server's handle tables
          inq,                    \* requests received, not yet served
          nsent, nserved, nresp,  \* counters: requests sent / taken by the loop / response packets emitted
          last,                   \* the request served last and what was emitted for it
          spinning                \* the request loop is stuck inside a handler
vars == <<files, dirs, nexth, inq, nsent, nserved, nresp, last, spinning>>

NoLast == [kind |-> "none", id |-> 0, valid |-> TRUE, hard |-> FALSE, resp |-> <<>>]

Init == /\ files = {} /\ dirs = {} /\ nexth = 1 /\ inq = <<>>
        /\ nsent = 0 /\ nserved = 0 /\ nresp = 0 /\ last = NoLast /\ spinning = FALSE

\* the client may name any token; `hard` marks a check-file range on which the pinned loop does not end
\* `boom`: the SFTPHandle method this request ends up calling raises (e.g. a deferred write error reported by close());
\* start_subsystem's catch-all then answers with a FAILURE status
Send(kind, h, hard, boom) ==
  /\ nsent < MaxReqs /\ Len(inq) < 2
  /\ inq' = Append(inq, [kind |-> kind, id |-> nsent + 1, h |-> h, hard |-> hard, boom |-> boom])
  /\ nsent' = nsent + 1
  /\ UNCHANGED <<files, dirs, nexth, nserved, nresp, last, spinning>>

Resp(q, t) == [type |-> t, id |-> q.id]

Serve ==
  /\ inq # <<>> /\ ~spinning
  /\ LET q == Head(inq)
         v == Valid(q.kind, q.h, files, dirs)
     IN /\ inq' = Tail(inq) /\ nserved' = nserved + 1
        /\ IF q.kind = "ext_check_file" /\ v /\ q.hard /\ ~FixCheckFile
             THEN \* _check_file never leaves its read loop: nothing is sent, nothing is served any more
                  /\ spinning' = TRUE
                  /\ last' = [kind |-> q.kind, id |-> q.id, valid |-> v, hard |-> q.hard, resp |-> <<>>]
                  /\ UNCHANGED <<files, dirs, nexth, nresp>>
             ELSE IF q.boom /\ v /\ q.h \in files
             THEN \* the handle method raises.  Pinned code: nothing has been sent yet, the catch-all sends one FAILURE
                  \* status (a failed close() leaves the handle in the table).  Mutation: the handle was popped and
                  \* OK was sent before close() raised, and the catch-all adds a second status with the same id.
                  LET two == q.kind = "close" /\ ReplyBeforeClose IN
                  /\ last' = [kind |-> q.kind, id |-> q.id, valid |-> v, hard |-> q.hard,
                              resp |-> IF two THEN <<Resp(q, "STATUS"), Resp(q, "STATUS")>> ELSE <<Resp(q, "STATUS")>>]
                  /\ nresp' = nresp + (IF two THEN 2 ELSE 1)
                  /\ files' = IF two THEN files \ {q.h} ELSE files
                  /\ UNCHANGED <<dirs, nexth, spinning>>
             ELSE \E t \in (IF ~v
                              THEN (IF q.kind = "fsetstat" /\ ~FixFsetstat THEN {"OTHER"} ELSE {"STATUS"})
                              ELSE Allowed(q.kind, TRUE)) :
                  /\ last' = [kind |-> q.kind, id |-> q.id, valid |-> v, hard |-> q.hard, resp |-> <<Resp(q, t)>>]
                  /\ nresp' = nresp + 1
                  /\ IF t = "HANDLE" /\ q.kind = "open"
                       THEN files' = files \cup {nexth} /\ nexth' = nexth + 1 /\ UNCHANGED dirs
                     ELSE IF t = "HANDLE" /\ q.kind = "opendir"
                       THEN dirs' = dirs \cup {nexth} /\ nexth' = nexth + 1 /\ UNCHANGED files
                     ELSE IF q.kind = "close" /\ v
                       THEN files' = files \ {q.h} /\ dirs' = dirs \ {q.h} /\ UNCHANGED nexth
                     ELSE UNCHANGED <<files, dirs, nexth>>
                  /\ UNCHANGED spinning
  /\ UNCHANGED nsent

Next == Serve \/ \E k \in Kinds, h \in 0..MaxHandles, hard \in BOOLEAN, boom \in BOOLEAN :
                    /\ (hard => k = "ext_check_file") /\ (h # 0 => k \in TakesHandle)
                    /\ (boom => HandleFaults /\ k \in NeedsFile \cup NeedsAny /\ h # 0 /\ ~hard)
                    /\ Send(k, h, hard, boom)
Spec == Init /\ [][Next]_vars
FairSpec == Spec /\ WF_vars(Serve)

(* ------------------------------ properties ------------------------------ *)
\* exactly one response per served request, carrying the request's id
ExactlyOne == /\ nresp = nserved
              /\ last.kind # "none" => (Len(last.resp) = 1 /\ last.resp[1].id = last.id)
\* of a type that is valid for the request
TypeAllowed == \A i \in 1..Len(last.resp) : last.resp[i].type \in Allowed(last.kind, last.valid)
\* the server never stops answering
NeverStops == ~spinning
AllServed == <>[](nserved = nsent)
\* one CASE per (kind, handle class, hard) reached, for spec -> code replay
HClass(q) == IF q.kind \notin TakesHandle THEN "-"
             ELSE IF q.h \in files THEN "file" ELSE IF q.h \in dirs THEN "dir"
             ELSE IF q.h > 0 /\ q.h < nexth THEN "stale" ELSE "junk"
\* action constraint for the generation run: only the last request of a behaviour ranges over all kinds, the ones
\* before it are those that shape the handle tables
GenShape == (nsent' = nsent + 1 /\ nsent' < MaxReqs) => inq'[Len(inq')].kind \in {"open", "opendir", "close"}
Emit == inq # <<>> =>
          PrintT(<<"CASE", Head(inq).kind, HClass(Head(inq)), Head(inq).hard,
                   Allowed(Head(inq).kind, Valid(Head(inq).kind, Head(inq).h, files, dirs))>>)
=============================================================================
