------------------------- MODULE BufferedPipe_Trace -------------------------
(* code -> spec for C26.  One trace = one schedule of real threads on a real     *)
(* BufferedPipe under linesched.  Events are sorted by the sequence number of    *)
(* the operation's FINAL release of the pipe lock (its linearization point).     *)
(* The contract state (buf, closed) is replayed and each return value judged.    *)
EXTENDS Naturals, Sequences, TLC, Json, IOUtils, TLCExt
Batch == JsonDeserialize(IOEnv.TRACE_FILE)
VARIABLES tid, l, buf, closed, bad
tvars == <<tid, l, buf, closed, bad>>
T == Batch[tid].events
Min(a, b) == IF a < b THEN a ELSE b
Take(s, n) == SubSeq(s, 1, Min(n, Len(s)))
Drop(s, n) == SubSeq(s, Min(n, Len(s)) + 1, Len(s))
TInit == tid \in 1..Len(Batch) /\ l = 1 /\ buf = <<>> /\ closed = FALSE /\ bad = {}
E == T[l]
TNext ==
  /\ l <= Len(T) /\ l' = l + 1 /\ tid' = tid
  /\ CASE E.op = "feed"  -> buf' = buf \o E.data /\ closed' = closed /\ bad' = {}
       [] E.op = "close" -> closed' = TRUE /\ buf' = buf /\ bad' = {}
       [] E.op = "empty" -> /\ buf' = <<>> /\ closed' = closed
                            /\ bad' = IF E.data = buf THEN {} ELSE {"P_empty_returns_buffer"}
       [] E.op = "read" ->
            /\ closed' = closed
            /\ (CASE E.ret = "data" ->
                      /\ buf' = Drop(buf, E.n)
                      /\ bad' = (IF E.data = Take(buf, E.n) THEN {} ELSE {"P_fifo_order"})
                                \cup (IF E.data # <<>> THEN {} ELSE {"P_empty_data_return"})
                 [] E.ret = "empty" ->
                      /\ buf' = buf
                      /\ bad' = IF closed /\ buf = <<>> THEN {} ELSE {"P_empty_before_closed_and_drained"}
                 [] E.ret = "timeout" ->
                      /\ buf' = buf
                      /\ bad' = (IF buf = <<>> THEN {} ELSE {"P_timeout_with_data_available"})
                                \cup (IF E.timeout # "none" THEN {} ELSE {"P_timeout_without_timeout"}))
       [] E.op = "final" -> /\ buf' = buf /\ closed' = closed       \* what is left in the real buffer
                            /\ bad' = IF E.data = buf THEN {} ELSE {"P_lossless_remainder"}
TSpec == TInit /\ [][TNext]_tvars
Report == /\ (bad # {} => PrintT(<<"VERDICT", tid, l - 1, bad>>))
          /\ (l = Len(T) + 1 => PrintT(<<"DONE", tid>>))
=============================================================================
