---------------------------- MODULE Channel_Gen ----------------------------
(* spec -> code for the channel group: Channel.tla (pinned-tree structure: the      *)
(* hand-over is a step of its own) with a history of its steps.  A behaviour is     *)
(* printed as <<"BEH", hist, whist, outs, fin, tmo>> when every user thread has     *)
(* made its calls and nothing is left to dispatch:                                  *)
(*   hist   sequence of <<who, action, op>>: who = user thread | "TA"/"TB"          *)
(*   whist  per side, every message handed to the transport, in order               *)
(*   fin    the channel attributes of both sides at the end                         *)
(* The check runs the same calls on two real Channels under linesched, moving the   *)
(* named thread from one spec-level position to the next for each step, and         *)
(* compares whist, fin and the outcome of every call.  Steps on which the three     *)
(* open-defect toggles disagree (sendall after send() returned 0, discarded         *)
(* extended data) are not generated, so the replay is valid before and after the    *)
(* repairs.                                                                         *)
EXTENDS Channel
VARIABLES hist, whist, outs
gvars == <<vars, hist, whist, outs>>

Sensitive(t) == LET X == Side(t) IN
  op[t] \in AllOps /\ \/ pc[t] = "send_lock" /\ ~closed[X] /\ eofSent[X]
                      \/ pc[t] = "send_wait" /\ (closed[X] \/ eofSent[X])
Grown(X) == IF Len(wire'[X]) > Len(wire[X]) THEN SubSeq(wire'[X], Len(wire[X]) + 1, Len(wire'[X])) ELSE <<>>
Rec(who, act, o) ==
  /\ hist' = Append(hist, <<who, act, o>>)
  /\ whist' = [X \in Sides |-> whist[X] \o (IF who = "T" \o Peer(X) THEN <<>> ELSE Grown(X))]
  /\ outs' = IF who \in Threads /\ pc[who] # "idle" /\ pc'[who] = "idle"
               THEN Append(outs, <<who, last'[who].op, last'[who].out>>) ELSE outs

GInit == Init /\ hist = <<>> /\ whist = [X \in Sides |-> <<>>] /\ outs = <<>>
GNext ==
  /\ UNCHANGED par
  /\ \/ \E t \in Threads :
          \/ StartAny(t) /\ Rec(t, "Start", op'[t])
          \/ ~Sensitive(t) /\ SendEntry(t) /\ Rec(t, "SendEntry", op[t])
          \/ ~Sensitive(t) /\ SendWake(t) /\ Rec(t, "SendWake", op[t])
          \/ SendEmit(t) /\ Rec(t, "SendEmit", op[t])
          \/ SendFin(t) /\ Rec(t, "SendFin", op[t])
          \/ FlushEmit(t) /\ Rec(t, "FlushEmit", op[t])
          \/ SendDone(t) /\ Rec(t, "SendDone", op[t])
          \/ (\E n \in ReadSizes : RecvRead(t, n) /\ Rec(t, "RecvRead", n))
          \/ RecvEmpty(t) /\ Rec(t, "RecvEmpty", op[t])
          \/ RecvAck(t) /\ Rec(t, "RecvAck", op[t])
          \/ RecvEmit(t) /\ Rec(t, "RecvEmit", op[t])
          \/ CombineLocked(t) /\ Rec(t, "CombineLocked", op[t])
          \/ CloseLocked(t) /\ Rec(t, "CloseLocked", op[t])
          \/ ShutRead(t) /\ Rec(t, "ShutRead", op[t])
          \/ ShutLocked(t) /\ Rec(t, "ShutLocked", op[t])
          \/ CtlEmit(t) /\ Rec(t, "CtlEmit", op[t])
     \/ \E X \in Sides :
          \/ Deliver(X) /\ ~(Head(wire[Peer(X)]).t = "EXT" /\ Head(wire[Peer(X)]).code # 1) /\ Rec("T" \o X, "Deliver", "none")
          \/ TEmit(X) /\ Rec("T" \o X, "TEmit", "none")
GSpec == GInit /\ [][GNext]_gvars

Complete == /\ \A t \in Users : pc[t] = "idle" /\ calls[t] = MaxCalls
            /\ \A X \in Sides : wire[X] = <<>> /\ tpc[X] = "idle"
Fin == [X \in Sides |-> <<outwin[X], sofar[X], buf[X].out, buf[X].err, eofSent[X], eofRecv[X], closed[X], linked[X]>>]
GenEmit == Complete => PrintT(<<"BEH", hist, whist, outs, Fin, tmo>>)
=============================================================================
