------------------------- MODULE KeyDerivation_Trace -------------------------
(* code -> spec for C04.  Two kinds of record:                                   *)
(*  kind = "compute": one call of the real Transport._compute_key(letter, n) on a *)
(*     transport whose kex hash is a recording wrapper; calls[i] = the i-th hash  *)
(*     input parsed into tokens [t, v, i]: t = "K" (mpint of the secret), "H",    *)
(*     "X" (v = the letter), "sid", "D" (i = index of an earlier digest), "?";    *)
(*     out_ok = result is the first n bytes of the digests, rfc_ok = result is    *)
(*     what an independent RFC 4253 7.2 implementation computes.                  *)
(*  kind = "kex": one key exchange of a real client/server session; acts = the    *)
(*     four _activate_* calls, each with, per purpose w in {iv, key, mac}:        *)
(*     let[w] = letter of the _compute_key request whose result was installed,    *)
(*     size[w] = bytes installed, id[w] = identity of the installed bytes (equal  *)
(*     bytes = equal id), rfc_ok = installed bytes are the RFC derivation from    *)
(*     the session id of the FIRST exchange; wire = "ok" / "bad" / "none": the first *)
(*     packet sent under the keys of an outbound activation opens with an engine  *)
(*     built independently from the RFC-derived values of that exchange;          *)
(*      need[dir][w] = bytes the negotiated  *)
(*     cipher / MAC require (0 = not used, AES-GCM has no MAC key).               *)
EXTENDS KeyDerivation, Json, IOUtils, TLCExt
Batch == JsonDeserialize(IOEnv.TRACE_FILE)
VARIABLES tid, l, bad
tvars == <<tid, l, bad, vars>>
R == Batch[tid]
S(c, name) == IF c THEN {name} ELSE {}

(* ---- "compute" ---- *)
SidTerm == [exhash |-> 0]            \* some session id (the harness picks one unrelated to H)
Junk == [junk |-> 0]
TermOf(tok) == CASE tok.t = "K"   -> Secret(1)
                 [] tok.t = "H"   -> ExHash(1)
                 [] tok.t = "X"   -> Letter(tok.v)
                 [] tok.t = "sid" -> SidTerm
                 [] tok.t = "D"   -> Dg(1, SidTerm, R.letter, tok.i)
                 [] OTHER         -> Junk
CallTerms(i) == [j \in 1..Len(R.calls[i]) |-> TermOf(R.calls[i][j])]
Want == HashInputs(1, SidTerm, R.letter, R.n, R.hl)
ComputeBad ==
    S(Len(R.calls) = 0 \/ CallTerms(1) # Want[1], "P_first_block")
    \cup S(\E i \in 2..Len(R.calls) : i <= Len(Want) /\ CallTerms(i) # Want[i], "P_extension")
    \cup S(Len(R.calls) * R.hl < R.n, "P_enough_material")
    \cup S(~R.out_ok \/ ~R.rfc_ok, "P_output")
    \cup S(Len(R.calls) # Len(Want), "C_hash_calls")

(* ---- "kex" ---- *)
Act(r, d) == CHOOSE a \in {R.acts[i] : i \in 1..Len(R.acts)} : a.role = r /\ a.dir = d
Has(r, d) == \E i \in 1..Len(R.acts) : R.acts[i].role = r /\ R.acts[i].dir = d
NeedOf(r, d, w) == IF C2S(r, d) THEN R.need.c2s[w] ELSE R.need.s2c[w]
Used == {<<r, d, w>> \in Roles \X Dirs \X Whats : Has(r, d) /\ NeedOf(r, d, w) > 0}
KexBad ==
    S(\E x \in Used : Act(x[1], x[2]).let[x[3]] # RfcLetter(C2S(x[1], x[2]), x[3]), "P_letters")
    \cup S(\E x \in Used : Act(x[1], x[2]).size[x[3]] # NeedOf(x[1], x[2], x[3]), "P_sizes")
    \cup S(\E x \in Used : ~Act(x[1], x[2]).rfc_ok[x[3]], "P_rfc_value")
    \cup S(\E x \in Used : x[2] = "out" /\ Has(Peer(x[1]), "in")
                            /\ Act(x[1], "out").id[x[3]] # Act(Peer(x[1]), "in").id[x[3]], "P_match")
    \cup S(\E x \in Used, y \in Used : C2S(x[1], x[2]) # C2S(y[1], y[2])
                            /\ Act(x[1], x[2]).id[x[3]] = Act(y[1], y[2]).id[y[3]], "P_shared")
    \* the first packet written after the key switch opens (decrypts, MAC / tag verifies) with an engine built
    \* independently from the RFC-derived key, IV and MAC key of THIS exchange ("none" = no packet was written)
    \cup S(\E i \in 1..Len(R.acts) : R.acts[i].wire = "bad", "P_key_in_use")
    \cup S(\E r \in Roles, d \in Dirs : ~Has(r, d), "C_incomplete")

TInit == tid \in 1..Len(Batch) /\ l = 1 /\ bad = {} /\ Init /\ mut = "none"
TNext == /\ l = 1 /\ l' = 2 /\ tid' = tid /\ UNCHANGED vars
         /\ bad' = IF R.kind = "compute" THEN ComputeBad ELSE KexBad
TSpec == TInit /\ [][TNext]_tvars
Report == /\ (bad # {} => PrintT(<<"VERDICT", tid, bad>>))
          /\ (l = 2 => PrintT(<<"DONE", tid>>))
=============================================================================
