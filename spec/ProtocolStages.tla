--------------------------- MODULE ProtocolStages ---------------------------
(* C38.  Which parser of paramiko runs on peer bytes in which protocol stage, *)
(* what the fields of every parsed message are, and how a field can be         *)
(* malformed.  One endpoint (the "victim", variable role) receives a well-formed *)
(* prefix of a session from its peer and then ONE malformed / misplaced        *)
(* message; the model records how the resulting failure (if any) surfaces      *)
(* through the API (start_client / start_server / connect / auth_* raising,    *)
(* Transport.get_exception()).  The property is the single invariant           *)
(* FailureClassAllowed.                                                        *)
(*                                                                             *)
(* Code anchors: Transport.run() (dispatch + exception capture), _check_banner,*)
(* _parse_kex_init, kex_*.parse_next, _parse_newkeys, _parse_ext_info,         *)
(* AuthHandler._parse_*, Transport._parse_global_request/_parse_channel_open*, *)
(* Channel._feed/_handle_request/..., Message.get_*.                           *)
EXTENDS Naturals, Sequences, FiniteSets, TLC

CONSTANTS Roles,     \* subset of {"client", "server"}: which endpoint is under test (chosen in Init)
          Guarded    \* TRUE  = the design the property asks for: every failure to parse peer data is reported
                     \*         as SSHException;
                     \* FALSE = faithful to the pinned tree: decoders and crypto back ends raise their own
                     \*         exception classes and Transport.run() stores whatever it caught

(* ------------------------------------------------------------------ grammar *)
F(n, t) == [n |-> n, t |-> t]

\* field types: byte16 bool uint32 string text namelist mpint  +  structured blobs:
\*   hostkey (K_S), sig (signature blob), pubkey (client key blob), ecpoint (SEC1 point), x25519 (32 bytes)
\*   line (identification string), frame (binary packet framing), packet (encrypted packet)
UserauthHead == <<F("user", "text"), F("service", "text"), F("method", "text")>>
ChanHead     == <<F("chan", "uint32")>>
ChanReqHead  == <<F("chan", "uint32"), F("kind", "text"), F("want_reply", "bool")>>
OpenHead     == <<F("kind", "text"), F("sender", "uint32"), F("window", "uint32"), F("maxpacket", "uint32")>>
GlobalHead   == <<F("kind", "text"), F("want_reply", "bool")>>
KexReply(pt) == <<F("K_S", "hostkey"), F("peer_public", pt), F("sig", "sig")>>

FieldsDef(m) ==
  CASE m = "BANNER"        -> <<F("line", "line")>>
    [] m = "FRAME"         -> <<F("framing", "frame")>>
    [] m = "CIPHERTEXT"    -> <<F("packet", "packet")>>
    [] m = "KEXINIT"       -> <<F("cookie", "byte16"), F("kex", "namelist"), F("hostkey", "namelist"),
                               F("enc_cs", "namelist"), F("enc_sc", "namelist"), F("mac_cs", "namelist"),
                               F("mac_sc", "namelist"), F("comp_cs", "namelist"), F("comp_sc", "namelist"),
                               F("lang_cs", "namelist"), F("lang_sc", "namelist"),
                               F("first_follows", "bool"), F("reserved", "uint32")>>
    [] m = "NEWKEYS"       -> <<>>
    [] m = "DISCONNECT"    -> <<F("code", "uint32"), F("desc", "text"), F("lang", "text")>>
    [] m = "DEBUG"         -> <<F("display", "bool"), F("msg", "string"), F("lang", "string")>>
    [] m = "IGNORE"        -> <<F("data", "string")>>
    [] m = "UNIMPLEMENTED" -> <<F("seq", "uint32")>>
    [] m = "EXT_INFO"      -> <<F("count", "uint32"), F("name", "text"), F("value", "string")>>
    \* key exchange, parsed by the server
    [] m = "KEXDH_INIT"          -> <<F("e", "mpint")>>
    [] m = "KEX_GEX_REQUEST"     -> <<F("min", "uint32"), F("n", "uint32"), F("max", "uint32")>>
    [] m = "KEX_GEX_REQUEST_OLD" -> <<F("n", "uint32")>>
    [] m = "KEX_GEX_INIT"        -> <<F("e", "mpint")>>
    [] m = "KEX_ECDH_INIT"       -> <<F("Q_C", "ecpoint")>>
    [] m = "KEX_C25519_INIT"     -> <<F("Q_C", "x25519")>>
    \* key exchange, parsed by the client
    [] m = "KEXDH_REPLY"         -> KexReply("mpint")
    [] m = "KEX_GEX_GROUP"       -> <<F("p", "mpint"), F("g", "mpint")>>
    [] m = "KEX_GEX_REPLY"       -> KexReply("mpint")
    [] m = "KEX_ECDH_REPLY"      -> KexReply("ecpoint")
    [] m = "KEX_C25519_REPLY"    -> KexReply("x25519")
    \* service + authentication
    [] m = "SERVICE_REQUEST" -> <<F("service", "text")>>
    [] m = "SERVICE_ACCEPT"  -> <<F("service", "text")>>
    [] m = "USERAUTH_REQUEST.none"       -> UserauthHead
    [] m = "USERAUTH_REQUEST.other"      -> UserauthHead \o <<F("data", "string")>>
    [] m = "USERAUTH_REQUEST.password"   -> UserauthHead \o <<F("change", "bool"), F("password", "string")>>
    [] m = "USERAUTH_REQUEST.passwd_change" -> UserauthHead \o <<F("change", "bool"), F("password", "string"),
                                                                 F("new_password", "string")>>
    [] m = "USERAUTH_REQUEST.pk_query"   -> UserauthHead \o <<F("has_sig", "bool"), F("algorithm", "text"),
                                                              F("key", "pubkey")>>
    [] m = "USERAUTH_REQUEST.publickey"  -> UserauthHead \o <<F("has_sig", "bool"), F("algorithm", "text"),
                                                              F("key", "pubkey"), F("signature", "sig")>>
    [] m = "USERAUTH_REQUEST.kbdint"     -> UserauthHead \o <<F("lang", "string"), F("submethods", "string")>>
    [] m = "USERAUTH_REQUEST.gss_mic"    -> UserauthHead \o <<F("n_mechs", "uint32"), F("mech", "string")>>
    [] m = "USERAUTH_REQUEST.gss_keyex"  -> UserauthHead \o <<F("mic", "string")>>
    [] m = "USERAUTH_GSSAPI_TOKEN"       -> <<F("token", "string")>>
    [] m = "USERAUTH_GSSAPI_MIC"         -> <<F("mic", "string")>>
    [] m = "USERAUTH_INFO_RESPONSE"      -> <<F("count", "uint32"), F("response", "text")>>
    [] m = "USERAUTH_SUCCESS"            -> <<>>
    [] m = "USERAUTH_FAILURE"            -> <<F("methods", "namelist"), F("partial", "bool")>>
    \* the same message with partial success = TRUE: the list of methods that can continue is not an error report
    \* (BadAuthenticationType) but the RETURN VALUE of the auth call, produced in the caller's thread
    [] m = "USERAUTH_FAILURE.partial"    -> <<F("methods", "namelist"), F("partial", "bool")>>
    [] m = "USERAUTH_BANNER"             -> <<F("message", "string"), F("lang", "string")>>
    [] m = "USERAUTH_INFO_REQUEST"       -> <<F("title", "text"), F("instructions", "text"), F("lang", "string"),
                                              F("count", "uint32"), F("prompt", "text"), F("echo", "bool")>>
    [] m = "USERAUTH_PK_OK"              -> <<F("algorithm", "text"), F("key", "pubkey")>>
    \* connection protocol
    [] m = "GLOBAL_REQUEST.tcpip-forward"        -> GlobalHead \o <<F("address", "text"), F("port", "uint32")>>
    [] m = "GLOBAL_REQUEST.cancel-tcpip-forward" -> GlobalHead \o <<F("address", "text"), F("port", "uint32")>>
    [] m = "GLOBAL_REQUEST.other"                -> GlobalHead
    [] m = "REQUEST_SUCCESS"  -> <<F("port", "uint32")>>
    [] m = "REQUEST_FAILURE"  -> <<>>
    [] m = "CHANNEL_OPEN.session"         -> OpenHead
    [] m = "CHANNEL_OPEN.other"           -> OpenHead
    [] m = "CHANNEL_OPEN.auth-agent"      -> OpenHead
    [] m = "CHANNEL_OPEN.direct-tcpip"    -> OpenHead \o <<F("dest_addr", "text"), F("dest_port", "uint32"),
                                                           F("orig_addr", "text"), F("orig_port", "uint32")>>
    [] m = "CHANNEL_OPEN.forwarded-tcpip" -> OpenHead \o <<F("server_addr", "text"), F("server_port", "uint32"),
                                                           F("orig_addr", "text"), F("orig_port", "uint32")>>
    [] m = "CHANNEL_OPEN.x11"             -> OpenHead \o <<F("orig_addr", "text"), F("orig_port", "uint32")>>
    [] m = "CHANNEL_OPEN_SUCCESS" -> <<F("chan", "uint32"), F("sender", "uint32"), F("window", "uint32"),
                                       F("maxpacket", "uint32")>>
    [] m = "CHANNEL_OPEN_FAILURE" -> <<F("chan", "uint32"), F("reason", "uint32"), F("desc", "text"),
                                       F("lang", "text")>>
    [] m = "CHANNEL_WINDOW_ADJUST" -> ChanHead \o <<F("bytes", "uint32")>>
    [] m = "CHANNEL_DATA"          -> ChanHead \o <<F("data", "string")>>
    [] m = "CHANNEL_EXTENDED_DATA" -> ChanHead \o <<F("code", "uint32"), F("data", "string")>>
    [] m = "CHANNEL_EOF"     -> ChanHead
    [] m = "CHANNEL_CLOSE"   -> ChanHead
    [] m = "CHANNEL_SUCCESS" -> ChanHead
    [] m = "CHANNEL_FAILURE" -> ChanHead
    [] m = "CHANNEL_REQUEST.exit-status"   -> ChanReqHead \o <<F("status", "uint32")>>
    [] m = "CHANNEL_REQUEST.xon-xoff"      -> ChanReqHead \o <<F("can_do", "bool")>>
    [] m = "CHANNEL_REQUEST.other"         -> ChanReqHead \o <<F("data", "string")>>
    [] m = "CHANNEL_REQUEST.pty-req"       -> ChanReqHead \o <<F("term", "string"), F("width", "uint32"),
                                                F("height", "uint32"), F("pixw", "uint32"), F("pixh", "uint32"),
                                                F("modes", "string")>>
    [] m = "CHANNEL_REQUEST.shell"         -> ChanReqHead
    [] m = "CHANNEL_REQUEST.auth-agent-req" -> ChanReqHead
    [] m = "CHANNEL_REQUEST.env"           -> ChanReqHead \o <<F("name", "string"), F("value", "string")>>
    [] m = "CHANNEL_REQUEST.exec"          -> ChanReqHead \o <<F("command", "string")>>
    [] m = "CHANNEL_REQUEST.subsystem"     -> ChanReqHead \o <<F("name", "text")>>
    [] m = "CHANNEL_REQUEST.window-change" -> ChanReqHead \o <<F("width", "uint32"), F("height", "uint32"),
                                                F("pixw", "uint32"), F("pixh", "uint32")>>
    [] m = "CHANNEL_REQUEST.x11-req"       -> ChanReqHead \o <<F("single", "bool"), F("auth_proto", "text"),
                                                F("cookie", "string"), F("screen", "uint32")>>

AllMsgs == {"BANNER", "FRAME", "CIPHERTEXT", "KEXINIT", "NEWKEYS", "DISCONNECT", "DEBUG", "IGNORE",
           "UNIMPLEMENTED", "EXT_INFO", "KEXDH_INIT", "KEX_GEX_REQUEST", "KEX_GEX_REQUEST_OLD", "KEX_GEX_INIT",
           "KEX_ECDH_INIT", "KEX_C25519_INIT", "KEXDH_REPLY", "KEX_GEX_GROUP", "KEX_GEX_REPLY", "KEX_ECDH_REPLY",
           "KEX_C25519_REPLY", "SERVICE_REQUEST", "SERVICE_ACCEPT", "USERAUTH_REQUEST.none",
           "USERAUTH_REQUEST.other", "USERAUTH_REQUEST.password", "USERAUTH_REQUEST.passwd_change",
           "USERAUTH_REQUEST.pk_query", "USERAUTH_REQUEST.publickey", "USERAUTH_REQUEST.kbdint",
           "USERAUTH_REQUEST.gss_mic", "USERAUTH_REQUEST.gss_keyex", "USERAUTH_GSSAPI_TOKEN", "USERAUTH_GSSAPI_MIC",
           "USERAUTH_INFO_RESPONSE", "USERAUTH_SUCCESS", "USERAUTH_FAILURE", "USERAUTH_FAILURE.partial",
           "USERAUTH_BANNER", "USERAUTH_INFO_REQUEST", "USERAUTH_PK_OK", "GLOBAL_REQUEST.tcpip-forward",
           "GLOBAL_REQUEST.cancel-tcpip-forward", "GLOBAL_REQUEST.other", "REQUEST_SUCCESS", "REQUEST_FAILURE",
           "CHANNEL_OPEN.session", "CHANNEL_OPEN.other", "CHANNEL_OPEN.auth-agent", "CHANNEL_OPEN.direct-tcpip",
           "CHANNEL_OPEN.forwarded-tcpip", "CHANNEL_OPEN.x11", "CHANNEL_OPEN_SUCCESS", "CHANNEL_OPEN_FAILURE",
           "CHANNEL_WINDOW_ADJUST", "CHANNEL_DATA", "CHANNEL_EXTENDED_DATA", "CHANNEL_EOF", "CHANNEL_CLOSE",
           "CHANNEL_SUCCESS", "CHANNEL_FAILURE", "CHANNEL_REQUEST.exit-status", "CHANNEL_REQUEST.xon-xoff",
           "CHANNEL_REQUEST.other", "CHANNEL_REQUEST.pty-req", "CHANNEL_REQUEST.shell",
           "CHANNEL_REQUEST.auth-agent-req", "CHANNEL_REQUEST.env", "CHANNEL_REQUEST.exec",
           "CHANNEL_REQUEST.subsystem", "CHANNEL_REQUEST.window-change", "CHANNEL_REQUEST.x11-req"}
\* constant-level tables (TLC evaluates them once)
FieldsOf == [m \in AllMsgs |-> FieldsDef(m)]
Fields(m) == FieldsOf[m]
TypesOf == [m \in AllMsgs |-> [i \in 1..Len(FieldsOf[m]) |-> FieldsOf[m][i].t]]
NamesOf == [m \in AllMsgs |-> [i \in 1..Len(FieldsOf[m]) |-> FieldsOf[m][i].n]]
Types(m) == TypesOf[m]
Names(m) == NamesOf[m]

(* ------------------------------------------------------- malformation classes *)
LenPrefixed == {"string", "text", "namelist", "mpint", "hostkey", "sig", "pubkey", "ecpoint", "x25519"}
Blobs       == {"hostkey", "sig", "pubkey"}
StringCl    == {"trunc_before", "trunc_inside", "len_beyond_end", "len_max", "len_over_pad", "empty", "wrong_type"}

Classes(t) ==
  CASE t = "byte16"   -> {"trunc_before", "trunc_inside"}
    [] t = "bool"     -> {"trunc_before", "nonbool", "wrong_type"}
    [] t = "uint32"   -> {"trunc_before", "trunc_inside", "zero", "max", "random", "wrong_type"}
    [] t = "string"   -> StringCl \cup {"bad_utf8", "huge"}
    [] t = "text"     -> StringCl \cup {"bad_utf8", "control_chars", "huge"}
    \* vendor_name / wrong_case: well-formed lists with names outside the fixed vocabulary (names are an open set,
    \* RFC 4250 4.6.1); with "empty" (one empty name) and "empty_elements" (doubled comma) the unusual-names classes
    [] t = "namelist" -> StringCl \cup {"bad_utf8", "unknown_only", "empty_elements", "huge", "vendor_name", "wrong_case"}
    [] t = "mpint"    -> StringCl \cup {"negative", "one", "huge"}
    [] t \in Blobs    -> StringCl \cup {"garbage", "other_algorithm", "inner_truncated", "inner_bad_utf8",
                                         "inner_len_max", "inner_zero_numbers"}
    [] t = "ecpoint"  -> StringCl \cup {"garbage", "off_curve", "wrong_length", "infinity", "compressed"}
    [] t = "x25519"   -> StringCl \cup {"garbage", "wrong_length", "all_zero"}
    [] t = "line"     -> {"no_ssh_prefix", "not_utf8", "very_long", "too_few_segments", "version_1_5",
                          "many_preamble_lines", "empty_line", "eof_before_newline", "nul_bytes", "not_utf8_preamble"}
    [] t = "frame"    -> {"len_zero", "len_max", "len_small", "len_not_block_multiple", "pad_exceeds_len",
                          "pad_zero", "eof_inside", "empty_payload"}
    [] t = "packet"   -> {"flip_length", "flip_body", "flip_mac", "truncate_eof", "garbage", "replay"}

\* whole-message classes (field index 0)
MsgClasses == {"trailing_bytes", "type_byte_only", "random_body"}

(* ------------------------------------------------------------- stage machine *)
KexFamilies == {"dh", "gex", "ecdh", "c25519"}
\* auth call made by a client victim; "password-kbdint" = auth_password() whose password request was refused with
\* "keyboard-interactive" as the only method left, so that it falls back to auth_interactive() with its own handler
Methods     == {"none", "password", "publickey", "kbdint", "password-kbdint"}
Interactive == {"kbdint", "password-kbdint"}
\* stage "deferred": peer data that the transport thread only STORES (EXT_INFO extension values go raw into
\* Transport.server_extensions) and that an API call parses later in the CALLER's thread, outside run()'s handlers.
\* The method slot names that later call: auth_publickey with an RSA key decodes server-sig-algs
\* (AuthHandler._finalize_pubkey_algorithm; transport thread for Transport, caller's thread for
\* ServiceRequestingTransport/AuthOnlyHandler = "@srt"); the other calls are controls that must not touch it.
LaterCalls  == {"publickey-rsa", "publickey-rsa@srt", "publickey-ed25519@srt", "password@srt"}
\* auth calls of ServiceRequestingTransport / AuthOnlyHandler whose tail (wait_for_response) handles the peer's reply in
\* the caller's thread; auth_none is left out: it raises TypeError by itself (no finish_message), whatever the peer sends
SrtMethods  == {"password@srt", "publickey@srt", "kbdint@srt"}
UnusualNames == {"vendor_name", "wrong_case", "empty", "empty_elements", "unknown_only"}
Ciphers     == {"ctr-hmac", "ctr-etm", "cbc-hmac", "gcm"}        \* every CIPHERTEXT case is run once per suite

VARIABLES role,      \* "client" | "server": the endpoint under test (the victim); fixed by Init
          stage,     \* what the victim is waiting for
          fam,       \* negotiated key exchange family ("-" outside the exchange)
          method,    \* client victim: the auth_* call in progress ("-" if none)
          inj,       \* the one malformed / misplaced message injected so far (<<>> = none yet)
          surfaced   \* how the injected message can come out: the set of possible results, each "tolerated" or
                     \* the class surfaced by the API for the resulting failure ({} before the injection).
                     \* (A set-valued outcome instead of one state per outcome keeps the graph at one state per case.)
vars == <<role, stage, fam, method, inj, surfaced>>

Stages == {"banner", "kexinit", "kex1", "kex2", "newkeys", "secured", "deferred", "service", "userauth", "kbdint",
           "gss_token", "gss_mic", "authed", "end"}

Always == {"DISCONNECT", "DEBUG", "IGNORE", "UNIMPLEMENTED"}     \* handled inline by run() once packets flow

Kex1(r, f) == IF r = "server"
              THEN (CASE f = "dh" -> {"KEXDH_INIT"} [] f = "gex" -> {"KEX_GEX_REQUEST", "KEX_GEX_REQUEST_OLD"}
                      [] f = "ecdh" -> {"KEX_ECDH_INIT"} [] f = "c25519" -> {"KEX_C25519_INIT"})
              ELSE (CASE f = "dh" -> {"KEXDH_REPLY"} [] f = "gex" -> {"KEX_GEX_GROUP"}
                      [] f = "ecdh" -> {"KEX_ECDH_REPLY"} [] f = "c25519" -> {"KEX_C25519_REPLY"})
Kex2(r) == IF r = "server" THEN {"KEX_GEX_INIT"} ELSE {"KEX_GEX_REPLY"}

ServerAuthRequests == {"USERAUTH_REQUEST.none", "USERAUTH_REQUEST.other", "USERAUTH_REQUEST.password",
                       "USERAUTH_REQUEST.passwd_change", "USERAUTH_REQUEST.pk_query", "USERAUTH_REQUEST.publickey",
                       "USERAUTH_REQUEST.kbdint", "USERAUTH_REQUEST.gss_mic", "USERAUTH_REQUEST.gss_keyex"}
ChannelMsgs == {"CHANNEL_WINDOW_ADJUST", "CHANNEL_DATA", "CHANNEL_EXTENDED_DATA", "CHANNEL_EOF", "CHANNEL_CLOSE",
                "CHANNEL_SUCCESS", "CHANNEL_FAILURE"}
ChanReqServer == {"CHANNEL_REQUEST.pty-req", "CHANNEL_REQUEST.shell", "CHANNEL_REQUEST.env", "CHANNEL_REQUEST.exec",
                  "CHANNEL_REQUEST.subsystem", "CHANNEL_REQUEST.window-change", "CHANNEL_REQUEST.x11-req",
                  "CHANNEL_REQUEST.auth-agent-req", "CHANNEL_REQUEST.other", "CHANNEL_REQUEST.exit-status",
                  "CHANNEL_REQUEST.xon-xoff"}
ChanReqClient == ChanReqServer     \* Channel._handle_request is role-blind (server_object is None on a client)
Responses == {"REQUEST_SUCCESS", "REQUEST_FAILURE", "CHANNEL_OPEN_SUCCESS", "CHANNEL_OPEN_FAILURE"}

Connection(r) == ChannelMsgs \cup Responses \cup
  (IF r = "server"
   THEN ChanReqServer \cup {"GLOBAL_REQUEST.tcpip-forward", "GLOBAL_REQUEST.cancel-tcpip-forward", "GLOBAL_REQUEST.other",
                            "CHANNEL_OPEN.session", "CHANNEL_OPEN.direct-tcpip", "CHANNEL_OPEN.other"}
   ELSE ChanReqClient \cup {"GLOBAL_REQUEST.other", "CHANNEL_OPEN.x11", "CHANNEL_OPEN.forwarded-tcpip",
                            "CHANNEL_OPEN.auth-agent", "CHANNEL_OPEN.other"})

\* the messages for which the victim has a parser that runs on the payload in this stage
ParsedDef(r, s, f, meth) ==
  CASE s = "banner"  -> {"BANNER"}
    [] s = "kexinit" -> {"KEXINIT", "FRAME"}
    [] s = "kex1"    -> Kex1(r, f)
    [] s = "kex2"    -> Kex2(r)
    [] s = "newkeys" -> {"NEWKEYS"}
    [] s = "secured" -> Always \cup {"EXT_INFO", "KEXINIT", "CIPHERTEXT"} \cup
                        (IF r = "server" THEN {"SERVICE_REQUEST"} \cup ServerAuthRequests \cup {"USERAUTH_INFO_RESPONSE"}
                         ELSE {})
    [] s = "deferred" -> IF r = "client" THEN {"EXT_INFO"} ELSE {}
    [] s = "service" -> IF r = "server" THEN ServerAuthRequests \cup {"SERVICE_REQUEST"} ELSE {"SERVICE_ACCEPT"}
    [] s = "userauth" /\ meth \in SrtMethods -> {"USERAUTH_FAILURE.partial"}
    [] s = "userauth" /\ meth \notin SrtMethods ->
                         {"USERAUTH_SUCCESS", "USERAUTH_FAILURE", "USERAUTH_FAILURE.partial", "USERAUTH_BANNER"} \cup
                         (IF meth \in Interactive THEN {"USERAUTH_INFO_REQUEST"} ELSE {}) \cup
                         (IF meth = "publickey" THEN {"USERAUTH_PK_OK"} ELSE {})
    [] s = "kbdint"   -> {"USERAUTH_INFO_RESPONSE"}
    [] s = "gss_token" -> {"USERAUTH_GSSAPI_TOKEN"}
    [] s = "gss_mic"  -> {"USERAUTH_GSSAPI_MIC"}
    [] s = "authed"   -> Connection(r) \cup {"KEXINIT", "CIPHERTEXT"} \cup Always
    [] OTHER -> {}

ParsedOf == [r \in {"client", "server"}, s \in Stages, f \in KexFamilies \cup {"-"},
             meth \in Methods \cup LaterCalls \cup SrtMethods \cup {"-"}
               |-> ParsedDef(r, s, f, meth)]
Parsed(r, s, f, meth) == ParsedOf[r, s, f, meth]

\* messages that have no business in the stage (sent well-formed): what matters is how run() refuses them
MisplacedDef(r, s) ==
  CASE s \in {"kexinit", "kex1", "newkeys"} ->
         {"NEWKEYS", "KEXINIT", "IGNORE", "DEBUG", "UNIMPLEMENTED", "DISCONNECT", "CHANNEL_DATA", "USERAUTH_SUCCESS",
          "SERVICE_REQUEST", "SERVICE_ACCEPT", "EXT_INFO", "KEXDH_INIT", "KEXDH_REPLY", "GLOBAL_REQUEST.other",
          "CHANNEL_OPEN.session"} \ (IF s = "kexinit" THEN {"KEXINIT"} ELSE IF s = "newkeys" THEN {"NEWKEYS"} ELSE {})
    [] s \in {"secured", "service", "userauth"} ->
         Connection(r) \cup {"NEWKEYS", "KEXDH_INIT", "KEXDH_REPLY", "USERAUTH_SUCCESS", "USERAUTH_FAILURE",
                             "USERAUTH_BANNER", "USERAUTH_INFO_REQUEST", "USERAUTH_INFO_RESPONSE", "SERVICE_ACCEPT",
                             "SERVICE_REQUEST", "USERAUTH_REQUEST.password"}
    [] s = "authed" -> {"NEWKEYS", "KEXDH_INIT", "KEXDH_REPLY", "KEX_GEX_GROUP", "SERVICE_REQUEST", "SERVICE_ACCEPT",
                        "USERAUTH_REQUEST.password", "USERAUTH_SUCCESS", "USERAUTH_FAILURE", "USERAUTH_BANNER",
                        "USERAUTH_INFO_REQUEST", "USERAUTH_INFO_RESPONSE", "EXT_INFO"}
    [] OTHER -> {}

MisplacedOf == [r \in {"client", "server"}, s \in Stages |-> MisplacedDef(r, s)]
Misplaced(r, s) == MisplacedOf[r, s]

\* all malformations of message m: <<field index, class>>; index 0 = the message as a whole
MalformationsDef(m) ==
  UNION {{<<i, c>> : c \in Classes(Fields(m)[i].t)} : i \in 1..Len(Fields(m))}
  \cup (IF m \in {"BANNER", "FRAME", "CIPHERTEXT"} THEN {} ELSE {<<0, c>> : c \in MsgClasses})

MalformationsOf == [m \in AllMsgs |-> MalformationsDef(m)]
Malformations(m) == MalformationsOf[m]

Case(s, f, meth, m, i, c) == [stage |-> s, fam |-> f, method |-> meth, msg |-> m, idx |-> i, class |-> c]

\* every abstract case of the model for one role: what TLC enumerates and the driver concretises
InModel(r, k) ==
  /\ k.stage \in Stages /\ k.fam \in KexFamilies \cup {"-"} /\ k.method \in Methods \cup LaterCalls \cup SrtMethods \cup {"-"}
  /\ \/ /\ k.msg \in Parsed(r, k.stage, k.fam, k.method)
        /\ <<k.idx, k.class>> \in Malformations(k.msg)
     \/ /\ k.msg \in Misplaced(r, k.stage) /\ k.idx = 0 /\ k.class = "misplaced"

\* the fixed part of every run of the check, whatever the tier and the seed: in the authentication stages, every
\* field of every message that is parsed there, cut off before / inside the field or (text-like fields) not UTF-8
\* and every field of a message whose content is stored and parsed by a later API call (stage "deferred")
AuthStages == {"service", "userauth", "kbdint", "gss_token", "gss_mic", "deferred"}
Core(r, k) == /\ k.stage \in AuthStages /\ k.idx > 0
              /\ k.msg \in Parsed(r, k.stage, k.fam, k.method) \
                         (Always \cup {"KEXINIT", "CIPHERTEXT"} \cup (IF k.stage = "deferred" THEN {} ELSE {"EXT_INFO"}))
              /\ \/ k.class \in {"trunc_before", "trunc_inside", "bad_utf8"}
                 \/ k.msg = "USERAUTH_FAILURE.partial" /\ k.idx = 1 /\ k.class \in UnusualNames

(* --- how a malformed field comes out of the decoders of the pinned tree (used only when ~Guarded, and as
   the prediction the trace spec compares observations with).  "-" = no internal error expected:
   the message is tolerated (Message.get_* pads short reads with zero bytes) or rejected with SSHException *)
RawClass(r, s, meth, m, i, c) ==
  IF s = "deferred" THEN
       (IF meth = "publickey-rsa@srt" /\ i = 3 /\ c = "bad_utf8" THEN "UnicodeDecodeError" ELSE "-")   \* u(server-sig-algs)
  ELSE IF s = "gss_token" THEN "TypeError"          \* GssapiWithMicAuthHandler's table holds plain functions: handler(m) fails
  ELSE IF m = "USERAUTH_REQUEST.gss_keyex" THEN "AttributeError"   \* no GSS context: falls through to None.ssh_check_mic
  ELSE IF i = 0 THEN
       (IF c = "misplaced" /\ r = "server" /\ s \in {"secured", "service"} /\ m \in Responses
          THEN "IndexError"               \* _ensure_authed returns an empty Message -> send_message indexes [0]
        ELSE IF c = "misplaced" /\ m = "NEWKEYS" /\ s \in {"secured", "service", "userauth", "authed"}
          THEN "TypeError"                \* _parse_newkeys with K = None -> deflate_long(None)
        ELSE "-")
  ELSE LET t == Fields(m)[i].t IN
    CASE t \in {"text", "namelist"} /\ c = "bad_utf8"          -> "UnicodeDecodeError"   \* Message.get_text
      [] t = "ecpoint" /\ c \in {"garbage", "off_curve", "wrong_length", "infinity", "empty", "compressed",
                                 "trunc_inside", "len_beyond_end", "len_max", "len_over_pad", "wrong_type"}
                                                               -> "ValueError"           \* from_encoded_point
      [] t = "x25519" /\ c \in {"wrong_length", "all_zero", "empty", "trunc_inside", "len_beyond_end", "len_max",
                                "len_over_pad", "wrong_type"}  -> "ValueError"           \* from_public_bytes / exchange
      [] t = "hostkey" /\ c \in {"inner_bad_utf8", "inner_zero_numbers", "inner_len_max"}
                                                               -> "ValueError|UnicodeDecodeError"   \* PKey constructors
      [] t = "frame" /\ c \in {"empty_payload", "len_small", "pad_exceeds_len"} -> "IndexError"  \* payload[0]
      [] t = "packet" /\ c \in {"flip_body", "flip_mac", "flip_length", "garbage", "replay"}
                                                               -> "InvalidTag"           \* AES-GCM suites only
      [] OTHER -> "-"

AllowedClasses == {"SSHException", "EOFError", "OSError"}
Outcomes(r, s, meth, m, i, c) ==
  {"tolerated", "SSHException", "EOFError"} \cup
  (IF ~Guarded /\ RawClass(r, s, meth, m, i, c) # "-" THEN {RawClass(r, s, meth, m, i, c)} ELSE {})

Init == /\ role \in Roles /\ stage = "banner" /\ fam = "-" /\ method = "-" /\ inj = <<>> /\ surfaced = {}

Goto(s, f, meth) == stage' = s /\ fam' = f /\ method' = meth

\* one well-formed step of the session, as far as it changes which parser runs next
WellFormed ==
  /\ inj = <<>> /\ UNCHANGED <<role, inj, surfaced>>
  /\ \/ stage = "banner" /\ Goto("kexinit", "-", "-")
     \/ stage = "kexinit" /\ \E f \in KexFamilies : Goto("kex1", f, "-")
     \/ stage = "kex1" /\ Goto(IF fam = "gex" THEN "kex2" ELSE "newkeys", fam, "-")
     \/ stage = "kex2" /\ Goto("newkeys", fam, "-")
     \/ stage = "newkeys" /\ Goto("secured", "-", "-")
     \/ stage = "secured" /\ role = "server" /\ Goto("service", "-", "-")              \* SERVICE_REQUEST/ACCEPT
     \/ stage = "secured" /\ role = "client" /\ \E me \in Methods : Goto("service", "-", me)   \* user calls auth_*
     \/ stage = "secured" /\ role = "client" /\ \E me \in LaterCalls : Goto("deferred", "-", me)  \* ... after the next message
     \/ stage = "secured" /\ role = "client" /\ \E me \in SrtMethods : Goto("userauth", "-", me)  \* SRT call, request sent
     \/ stage = "service" /\ role = "client" /\ Goto("userauth", "-", method)          \* SERVICE_ACCEPT, request sent
     \/ stage = "service" /\ role = "server" /\ Goto("kbdint", "-", "-")               \* kbd-interactive query sent
     \/ stage = "service" /\ role = "server" /\ Goto("gss_token", "-", "-")            \* gssapi-with-mic accepted
     \/ stage = "gss_token" /\ Goto("gss_mic", "-", "-")
     \/ stage \in {"service", "kbdint", "gss_mic"} /\ role = "server" /\ Goto("authed", "-", "-")
     \/ stage = "userauth" /\ Goto("authed", "-", "-")                                 \* USERAUTH_SUCCESS

\* the peer sends one malformed or misplaced message; the victim tolerates it or fails with some class
Inject ==
  /\ inj = <<>> /\ stage # "end"
  /\ \E m \in Parsed(role, stage, fam, method) \cup Misplaced(role, stage) :
       \E ic \in (IF m \in Parsed(role, stage, fam, method) THEN Malformations(m) ELSE {<<0, "misplaced">>}) :
           /\ inj' = Case(stage, fam, method, m, ic[1], ic[2])
           /\ surfaced' = Outcomes(role, stage, method, m, ic[1], ic[2])
           /\ stage' = "end" /\ UNCHANGED <<role, fam, method>>

Next == WellFormed \/ Inject
Spec == Init /\ [][Next]_vars

(* ------------------------------------------------------------------ property *)
\* MRO-based: a surfaced class is fine iff it is, or derives from, SSHException / EOFError / OSError
\* (socket.error, socket.timeout, ConnectionResetError are OSError subclasses)
Allowed(mro) == \E k \in 1..Len(mro) : mro[k] \in AllowedClasses
Failures == surfaced \ {"tolerated"}                      \* the classes a resulting failure can surface as
FailureClassAllowed == Failures \subseteq AllowedClasses   \* C38 on the model

TypeOK == /\ role \in Roles /\ stage \in Stages /\ fam \in KexFamilies \cup {"-"}
          /\ method \in Methods \cup LaterCalls \cup SrtMethods \cup {"-"}
          /\ (inj # <<>> => InModel(role, inj))

\* spec -> code: the grammar once, then one CASE per abstract case (= per post-injection state) with its Core flag
Emit == /\ (stage = "banner" /\ role = (CHOOSE r \in Roles : TRUE)) =>
             /\ \A m \in AllMsgs : PrintT(<<"GRAMMAR", m, Types(m), Names(m)>>)
             /\ PrintT(<<"CIPHERS", Ciphers>>)
        /\ (inj # <<>>) =>
             PrintT(<<"CASE", role, inj.stage, inj.fam, inj.method, inj.msg, inj.idx, inj.class, Core(role, inj)>>)
=============================================================================
