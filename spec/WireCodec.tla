------------------------------ MODULE WireCodec ------------------------------
(* C39.  paramiko.message.Message add_* / get_* and util.deflate_long /            *)
(* inflate_long (paramiko/message.py:100-303, paramiko/util.py:41-90).             *)
(*                                                                                *)
(* A message is written field by field (AddField), rewound (Rewind) and read back  *)
(* field by field (GetField).  The state holds the typed fields written so far,    *)
(* the bytes on the wire, where each field ends, and the reader's split of the     *)
(* wire into `sofar` (already read) and `rest` (unread).                           *)
(*                                                                                *)
(* Every number is a byte sequence, most significant byte first, no leading zero   *)
(* (zero is the empty sequence), so 4096-bit integers are ordinary values and no   *)
(* TLC integer exceeds 2^21.  A field is a record                                  *)
(*    [t |-> type, neg |-> BOOLEAN, v |-> Seq(Int), names |-> Seq(Seq(Int))]       *)
(*  t = "byte"      v = <<b>>                 t = "boolean"   v = <<0>> | <<1>>    *)
(*  t = "uint32" / "uint64" / "adaptive"      v = magnitude                        *)
(*  t = "mpint"     neg, v = sign and magnitude                                     *)
(*  t = "string"    v = bytes                 t = "text"      v = code points       *)
(*  t = "list"      names = non-empty list of non-empty, comma-free code point seqs *)
EXTENDS Naturals, Sequences, FiniteSets, TLC

CONSTANTS FieldVals,    \* the field values the model checker may write into messages of several fields
          SingleVals,   \* further values, explored as single-field messages only
          MaxFields,    \* longest message (in fields) explored
          MagLen,       \* RichVals: mpint magnitudes over the byte classes up to this many bytes ...
          IntRange,     \* ... and every integer -IntRange..IntRange
          ZeroAsByte,   \* FALSE = RFC 4251 (the design).  TRUE = faithful to the pinned code: deflate_long(0) is one
                        \*   zero byte, so add_mpint(0) writes 00 00 00 01 00 instead of 00 00 00 00
          Mutation      \* "none" = the design; other values re-introduce a defect (sensitivity runs)

VARIABLES fields,       \* Seq of field records written so far
          wire,         \* Seq of bytes
          ends,         \* ends[k] = Len(wire) after field k was written
          phase,        \* "write" | "read"
          sofar, rest,  \* the reader's view: bytes already read / not yet read
          got           \* Seq of field records read back
vars == <<fields, wire, ends, phase, sofar, rest, got>>

(* ---- byte sequences -------------------------------------------------------------- *)
Min(a, b) == IF a < b THEN a ELSE b
Zeros(n) == [i \in 1..n |-> 0]
Take(s, n) == SubSeq(s, 1, Min(n, Len(s)))
Drop(s, n) == SubSeq(s, Min(n, Len(s)) + 1, Len(s))
\* first / last non-zero position in b[lo..hi] (0 if none); halving keeps the evaluation depth logarithmic (512-byte integers)
RECURSIVE FirstNZIn(_, _, _)
FirstNZIn(b, lo, hi) == IF lo > hi THEN 0 ELSE IF lo = hi THEN (IF b[lo] # 0 THEN lo ELSE 0)
                        ELSE LET mid == (lo + hi) \div 2
                                 x == FirstNZIn(b, lo, mid) IN IF x # 0 THEN x ELSE FirstNZIn(b, mid + 1, hi)
RECURSIVE LastNZIn(_, _, _)
LastNZIn(b, lo, hi) == IF lo > hi THEN 0 ELSE IF lo = hi THEN (IF b[lo] # 0 THEN lo ELSE 0)
                       ELSE LET mid == (lo + hi) \div 2
                                x == LastNZIn(b, mid + 1, hi) IN IF x # 0 THEN x ELSE LastNZIn(b, lo, mid)
FirstNZ(b, i) == LET x == FirstNZIn(b, i, Len(b)) IN IF x = 0 THEN Len(b) + 1 ELSE x
LastNZ(b, i) == LastNZIn(b, 1, i)
Strip(b) == SubSeq(b, FirstNZ(b, 1), Len(b))                  \* magnitude of an unsigned big-endian byte string
Pad(m, n) == IF Len(m) >= n THEN m ELSE Zeros(n - Len(m)) \o m \* a magnitude in exactly n bytes (if it fits)
\* 2^(8 Len(b)) - b for b # 0: complement every byte before the last non-zero one, negate that one
TwosComp(b) == LET p == LastNZ(b, Len(b)) IN
               [i \in 1..Len(b) |-> IF i < p THEN 255 - b[i] ELSE IF i = p THEN 256 - b[i] ELSE 0]
BE4(n) == <<n \div 16777216, (n \div 65536) % 256, (n \div 256) % 256, (n % 256)>>      \* n < 2^31
TooLong == 1048576
BE4Val(b) == IF Len(b) < 4 THEN TooLong ELSE IF b[1] > 0 \/ b[2] > 15 THEN TooLong ELSE b[2] * 65536 + b[3] * 256 + b[4]
RECURSIVE Flatten(_)
Flatten(ss) == IF ss = <<>> THEN <<>> ELSE Head(ss) \o Flatten(Tail(ss))

(* ---- RFC 4251 section 5 ------------------------------------------------------------ *)
StringEnc(b) == BE4(Len(b)) \o b

\* mpint: two's complement, big-endian, minimal; zero is the empty string
MpintBytes(neg, m) ==
  IF m = <<>> THEN <<>>
  ELSE IF ~neg THEN (IF m[1] >= 128 THEN <<0>> \o m ELSE m)
  ELSE LET t == TwosComp(m) IN IF t[1] < 128 THEN <<255>> \o t ELSE t
\* ... characterised independently: "unnecessary leading bytes with the value 0 or 255 MUST NOT be included"
Minimal(b) == \/ b = <<>>
              \/ /\ ~(b[1] = 0 /\ (Len(b) = 1 \/ b[2] < 128))
                 /\ ~(b[1] = 255 /\ Len(b) > 1 /\ b[2] >= 128)
\* the integer a two's complement byte string denotes, as <<neg, magnitude>>
MpintValue(b) == IF b = <<>> THEN <<FALSE, <<>> >>
                 ELSE IF b[1] >= 128 THEN <<TRUE, Strip(TwosComp(b))>>
                 ELSE <<FALSE, Strip(b)>>

Utf8(c) == IF c < 128 THEN <<c>>
           ELSE IF c < 2048 THEN <<192 + (c \div 64), 128 + (c % 64)>>
           ELSE IF c < 65536 THEN <<224 + (c \div 4096), 128 + ((c \div 64) % 64), 128 + (c % 64)>>
           ELSE <<240 + (c \div 262144), 128 + ((c \div 4096) % 64), 128 + ((c \div 64) % 64), 128 + (c % 64)>>
Utf8Seq(cs) == Flatten([i \in 1..Len(cs) |-> Utf8(cs[i])])
RECURSIVE Utf8Dec(_)
Utf8Dec(b) ==
  IF b = <<>> THEN <<>>
  ELSE LET h == b[1]
           n == IF h < 128 THEN 1 ELSE IF h >= 192 /\ h < 224 THEN 2 ELSE IF h >= 224 /\ h < 240 THEN 3
                ELSE IF h >= 240 /\ h < 248 THEN 4 ELSE 0
       IN IF n = 0 \/ Len(b) < n THEN <<65533>> \o Utf8Dec(Tail(b))
          ELSE <<CASE n = 1 -> h
                   [] n = 2 -> (h - 192) * 64 + (b[2] % 64)
                   [] n = 3 -> (h - 224) * 4096 + (b[2] % 64) * 64 + (b[3] % 64)
                   [] n = 4 -> (h - 240) * 262144 + (b[2] % 64) * 4096 + (b[3] % 64) * 64 + (b[4] % 64)>>
               \o Utf8Dec(Drop(b, n))
Comma == 44
JoinNames(ns) == Flatten([i \in 1..Len(ns) |-> IF i = 1 THEN ns[i] ELSE <<Comma>> \o ns[i]])
RECURSIVE SplitNames(_, _)
SplitNames(cs, cur) == IF cs = <<>> THEN <<cur>>
                       ELSE IF Head(cs) = Comma THEN <<cur>> \o SplitNames(Tail(cs), <<>>)
                       ELSE SplitNames(Tail(cs), Append(cur, Head(cs)))

(* ---- fields ------------------------------------------------------------------------- *)
F(t, neg, v, names) == [t |-> t, neg |-> neg, v |-> v, names |-> names]
Byte(b) == F("byte", FALSE, <<b>>, <<>>)
Bool(x) == F("boolean", FALSE, IF x THEN <<1>> ELSE <<0>>, <<>>)
U32(m) == F("uint32", FALSE, m, <<>>)
U64(m) == F("uint64", FALSE, m, <<>>)
Adapt(m) == F("adaptive", FALSE, m, <<>>)
Mp(neg, m) == F("mpint", neg, m, <<>>)
Str(b) == F("string", FALSE, b, <<>>)
Text(cs) == F("text", FALSE, cs, <<>>)
List(ns) == F("list", FALSE, <<>>, ns)

\* 0xFF000000 and above (Message.big_int) go the long way
IsBig(m) == Len(m) > 4 \/ (Len(m) = 4 /\ m[1] = 255)

\* the bytes a field must occupy (mz = how mpint zero is written)
EncWith(f, mz) ==
  CASE f.t = "byte"     -> f.v
    [] f.t = "boolean"  -> f.v
    [] f.t = "uint32"   -> Pad(f.v, 4)
    [] f.t = "uint64"   -> Pad(f.v, 8)
    [] f.t = "adaptive" -> (IF IsBig(f.v) THEN <<255>> \o StringEnc(MpintBytes(FALSE, f.v)) ELSE Pad(f.v, 4))
    [] f.t = "mpint"    -> StringEnc(IF f.v = <<>> THEN mz ELSE MpintBytes(f.neg, f.v))
    [] f.t = "string"   -> StringEnc(f.v)
    [] f.t = "text"     -> StringEnc(Utf8Seq(f.v))
    [] f.t = "list"     -> StringEnc(Utf8Seq(JoinNames(f.names)))
Enc(f) == EncWith(f, <<>>)

\* reading a field of type t from the unread bytes r: the value and the number of bytes consumed (total)
ReadString(r) == LET n == BE4Val(r) IN [b |-> Take(Drop(r, 4), n), n |-> Min(Len(r), 4 + n)]
Read(t, r) ==
  CASE t = "byte"     -> [val |-> Byte(Pad(Take(r, 1), 1)[1]), n |-> Min(1, Len(r))]
    [] t = "boolean"  -> [val |-> Bool(Pad(Take(r, 1), 1)[1] # 0), n |-> Min(1, Len(r))]
    [] t = "uint32"   -> [val |-> U32(Strip(Take(r, 4))), n |-> Min(4, Len(r))]
    [] t = "uint64"   -> [val |-> U64(Strip(Take(r, 8))), n |-> Min(8, Len(r))]
    [] t = "adaptive" -> (IF r # <<>> /\ r[1] = 255
                          THEN LET s == ReadString(Drop(r, 1)) IN [val |-> Adapt(MpintValue(s.b)[2]), n |-> 1 + s.n]
                          ELSE [val |-> Adapt(Strip(Take(r, 4))), n |-> Min(4, Len(r))])
    [] t = "mpint"    -> LET s == ReadString(r) IN [val |-> Mp(MpintValue(s.b)[1], MpintValue(s.b)[2]), n |-> s.n]
    [] t = "string"   -> LET s == ReadString(r) IN [val |-> Str(s.b), n |-> s.n]
    [] t = "text"     -> LET s == ReadString(r) IN [val |-> Text(Utf8Dec(s.b)), n |-> s.n]
    [] t = "list"     -> LET s == ReadString(r) IN [val |-> List(SplitNames(Utf8Dec(s.b), <<>>)), n |-> s.n]

(* ---- the property, clause by clause ---------------------------------------------------- *)
\* field f was written and the wire grew by seg
WriteClauses(f, seg) ==
  IF f.t = "mpint" THEN (IF seg = Enc(f) THEN {} ELSE {"P_mpint_not_canonical"})
  ELSE (IF seg = Enc(f) THEN {} ELSE {"C_wire_layout"})
\* field f was read back as val, leaving the reader with sf (read) and rs (unread) of the message w
ReadClauses(f, val, sf, rs, w) ==
     (IF val = f THEN {} ELSE {"P_roundtrip"})
\cup (IF sf \o rs = w THEN {} ELSE {"P_sofar_plus_remainder"})

(* ---- huge fields (megabytes): only the length and a digest of the content reach TLC ------- *)
(* h = [t |-> "hstring" | "htext" | "hlist", len |-> content length in bytes (for a text / name-list: of its      *)
(*      UTF-8 / comma-joined UTF-8), digest |-> SHA-256 of that content (an opaque string here), ...]             *)
(* The encoding of such a field is StringEnc(content): a 4-byte length and the content itself.                    *)
HugeTypes == {"hstring", "htext", "hlist"}
\* w = what the writer appended: [seglen, header (its first 4 bytes), digest (of everything after them)]
HugeWriteClauses(h, w) ==
  IF w.seglen = 4 + h.len /\ w.header = BE4(h.len) /\ w.digest = h.digest THEN {} ELSE {"C_wire_layout"}
\* r = what the reader returned, summarised the same way: [t, len, digest]
HugeReadClauses(h, r) == IF r.t = h.t /\ r.len = h.len /\ r.digest = h.digest THEN {} ELSE {"P_roundtrip"}

(* ---- the state machine ----------------------------------------------------------------- *)
Init == /\ fields = <<>> /\ wire = <<>> /\ ends = <<>> /\ phase = "write"
        /\ sofar = <<>> /\ rest = <<>> /\ got = <<>>

Written(f) ==
  CASE Mutation = "no_sign_padding" /\ f.t = "mpint" /\ f.v # <<>> /\ ~f.neg -> StringEnc(f.v)
    [] Mutation = "little_endian_u32" /\ f.t = "uint32" -> [i \in 1..4 |-> Pad(f.v, 4)[5 - i]]
    [] OTHER -> EncWith(f, IF ZeroAsByte THEN <<0>> ELSE <<>>)

AddField(f) == /\ phase = "write" /\ Len(fields) < MaxFields
               /\ \A k \in 1..Len(fields) : fields[k] \in FieldVals       \* nothing follows a SingleVals value
               /\ fields' = Append(fields, f)
               /\ wire' = wire \o Written(f)
               /\ ends' = Append(ends, Len(wire'))
               /\ UNCHANGED <<phase, sofar, rest, got>>

Rewind == /\ phase = "write"
          /\ phase' = "read" /\ sofar' = <<>> /\ rest' = wire
          /\ UNCHANGED <<fields, wire, ends, got>>

GetField == /\ phase = "read" /\ Len(got) < Len(fields)
            /\ LET r == Read(fields[Len(got) + 1].t, rest)
                   n == IF Mutation = "string_off_by_one" /\ fields[Len(got) + 1].t = "string" THEN Min(r.n + 1, Len(rest)) ELSE r.n IN
                 /\ got' = Append(got, r.val)
                 /\ sofar' = sofar \o Take(rest, n)
                 /\ rest' = Drop(rest, n)
            /\ UNCHANGED <<fields, wire, ends, phase>>

Next == \/ \E f \in FieldVals : AddField(f)
        \/ fields = <<>> /\ \E f \in SingleVals : AddField(f)           \* a SingleVals value only starts a message
        \/ Rewind \/ GetField

Spec == Init /\ [][Next]_vars

(* ---- invariants (the statement of C39 on the model) -------------------------------------- *)
Seg(k) == SubSeq(wire, (IF k = 1 THEN 0 ELSE ends[k - 1]) + 1, ends[k])
\* already-read bytes plus the unread remainder are the whole message
SplitOK == phase = "read" => sofar \o rest = wire
\* what was read back is what was written, in order; the reader stands at a field boundary
RoundTripOK == /\ got = SubSeq(fields, 1, Len(got))
               /\ (phase = "read" => Len(sofar) = (IF got = <<>> THEN 0 ELSE ends[Len(got)]))
               /\ (phase = "read" /\ Len(got) = Len(fields) => rest = <<>>)
\* the wire is the concatenation of the field encodings (the steps add up to the whole-message definition)
\* (fields, wire and ends only change while writing, so the three invariants about them are evaluated in that phase)
WireOK == phase = "write" =>
          /\ Len(ends) = Len(fields)
          /\ \A k \in 1..Len(fields) : fields[k].t # "mpint" => WriteClauses(fields[k], Seg(k)) = {}
          /\ wire = Flatten([k \in 1..Len(fields) |-> Seg(k)])
\* every mpint on the wire is RFC 4251's minimal two's complement form and denotes the integer written
MpintCanonical == phase = "write" => \A k \in 1..Len(fields) : fields[k].t = "mpint" =>
                     LET b == Drop(Seg(k), 4) IN
                       /\ WriteClauses(fields[k], Seg(k)) = {}
                       /\ Take(Seg(k), 4) = BE4(Len(b))
                       /\ Minimal(b)
                       /\ MpintValue(b) = <<fields[k].neg, fields[k].v>>
\* the spec's decoder inverts the spec's encoder on every value (so either can serve as the oracle)
CodecInverse == phase = "write" => \A k \in 1..Len(fields) : LET r == Read(fields[k].t, Enc(fields[k])) IN r.val = fields[k] /\ r.n = Len(Enc(fields[k]))
\* step-wise form of the same clauses (what the trace spec evaluates on recorded steps)
AddLegal == [][(phase' = "write" /\ fields' # fields) =>
                  WriteClauses(fields'[Len(fields')], SubSeq(wire', Len(wire) + 1, Len(wire'))) = {}]_vars
GetLegal == [][got' # got => ReadClauses(fields[Len(got')], got'[Len(got')], sofar', rest', wire) = {}]_vars
\* emitted for spec -> code replay: one case per completely read message
Emit == (phase = "read" /\ Len(got) = Len(fields)) => PrintT(<<"CASE", fields, ends, wire>>)

(* ---- value sets for the model checker (a .cfg cannot write tuples: FieldVals <- SeqVals, SingleVals <- RichVals ...) ---- *)
NoVals == {}
ByteClass == {0, 1, 127, 128, 255}
Mags(n) == {<<>>} \cup UNION {{m \in [1..k -> ByteClass] : m[1] # 0} : k \in 1..n}
RECURSIVE ToMag(_)
ToMag(i) == IF i = 0 THEN <<>> ELSE Append(ToMag(i \div 256), i % 256)
Signed(S) == {Mp(FALSE, m) : m \in S} \cup {Mp(TRUE, m) : m \in S \ {<<>>}}
FF(n) == [i \in 1..n |-> 255]
U32Bounds == {<<>>, <<1>>, <<255>>, <<1, 0>>, <<255, 255>>, <<1, 0, 0>>, <<127, 255, 255, 255>>, <<128, 0, 0, 0>>,
              <<254, 255, 255, 255>>, <<255, 0, 0, 0>>, FF(4)}
U64Bounds == U32Bounds \cup {<<1, 0, 0, 0, 0>>, <<127>> \o FF(7), <<128>> \o Zeros(7), FF(8)}
AdaptBounds == U64Bounds \cup {<<255, 0, 0, 1>>, <<128, 0, 0, 0, 0>>, <<1>> \o Zeros(8), FF(9)}
Strings == {<<>>, <<0>>, <<44>>, <<255, 0, 13, 10>>}
Texts == {<<>>, <<97>>, <<127>>, <<128>>, <<2047>>, <<2048>>, <<65535>>, <<65536>>, <<1114111>>, <<97, 228, 8364, 128273>>}
Lists == {<<<<97>>>>, <<<<97>>, <<98>>>>, <<<<115, 115, 104, 45, 114, 115, 97>>, <<228, 8364>>, <<120>>>>}
Others == {Byte(b) : b \in ByteClass} \cup {Bool(TRUE), Bool(FALSE)}
          \cup {U32(m) : m \in U32Bounds} \cup {U64(m) : m \in U64Bounds} \cup {Adapt(m) : m \in AdaptBounds}
          \cup {Str(b) : b \in Strings} \cup {Text(c) : c \in Texts} \cup {List(n) : n \in Lists}
\* single-field messages with rich values (TLC evaluates constant definitions eagerly: keep MagLen / IntRange small
\* in configurations that do not use RichVals)
RichVals == Others \cup Signed(Mags(MagLen) \cup {ToMag(i) : i \in 0..IntRange})
\* a few values of every type, for messages of several fields
SeqVals == {Byte(7), Bool(TRUE), Bool(FALSE), U32(<<1, 2>>), U64(<<1, 0, 0, 0, 0>>), Adapt(<<5>>), Adapt(<<255, 0, 0, 1>>),
            Str(<<>>), Str(<<0, 255>>), Text(<<228, 8364>>), List(<<<<97>>, <<98, 99>>>>),
            Mp(FALSE, <<>>), Mp(TRUE, <<128>>), Mp(FALSE, <<128>>)}
MpintOnly == Signed(Mags(2))
=============================================================================
