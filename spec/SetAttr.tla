------------------------------- MODULE SetAttr -------------------------------
(* C31.  SFTP attribute changes on a served file have their local-filesystem      *)
(* meaning.  Every route (SFTPClient.chmod/chown/utime/truncate by path, the same *)
(* methods of SFTPFile by handle, SETSTAT/FSETSTAT with several fields) ends in   *)
(* SFTPServer.set_file_attr (paramiko/sftp_server.py), modelled here statement by *)
(* statement:                                                                     *)
(*     if FLAG_PERMISSIONS: os.chmod        -> Chmod                              *)
(*     if FLAG_UIDGID:      os.chown        -> Chown                              *)
(*     if FLAG_AMTIME:      os.utime        -> Utime                              *)
(*     if FLAG_SIZE:        open(name, M)   -> OpenForSize   (M = "w+" in 4.0.0)  *)
(*                          f.truncate(n)   -> Truncate                           *)
(* The meaning is given by the clause set Bad(before, attr, after): what os.chmod, *)
(* os.chown, os.utime and os.truncate would have left behind.                     *)
EXTENDS Integers, Sequences, FiniteSets, TLC

CONSTANTS Bytes,        \* byte values used for file contents by the model checker
          MaxLen,       \* longest initial content
          Perms,        \* permission words
          Ids,          \* uids / gids
          TimeHi,       \* high limbs of the timestamps the model checker uses (see Times)
          ZeroOnOpen,   \* TRUE: the size branch opens the file with a truncating mode ("w+"), as 4.0.0 does
          Links,        \* what the served name may be: subset of {"none", "link", "dangling"}
          NoFollowOwnTime  \* TRUE: chown / utime are applied without following a symbolic link (seeded defect)

\* timestamps are pairs <<hi, lo>> of 16-bit limbs, so 32-bit times survive TLC's 32-bit integers
Times == {<<h, 7>> : h \in TimeHi}
Now == <<70000, 0>>     \* "the clock when the file was last modified by a size change" (model only)

Zeros(n)     == [i \in 1..n |-> 0]
Min(a, b)    == IF a < b THEN a ELSE b
Resize(c, n) == IF n <= Len(c) THEN SubSeq(c, 1, n) ELSE c \o Zeros(n - Len(c))
Le(a, b)     == a[1] < b[1] \/ (a[1] = b[1] /\ a[2] <= b[2])      \* order on limb pairs

\* file: [content, perm, uid, gid, atime, mtime, link, luid, lgid, lmtime, failed]
\* attr: [has_perm, perm, has_own, uid, gid, has_time, atime, mtime, time_now, now_lo, now_hi, has_size, size]
\*   (time_now: the client was asked for "the current time" and chose it itself between now_lo and now_hi)

(* ---- the meaning: which clauses of the statement does (before, attr, after) break? ---- *)
\* The served name may be a symbolic link (file.link = "link": to the file described by the other fields;
\* "dangling": to nothing).  os.chmod / os.chown / os.utime / os.truncate follow links: the file changes, the link's
\* own owner and mtime (luid, lgid, lmtime - what lstat shows) do not, and on a dangling link the call fails.
\* (The link's own atime is not compared: the kernel may move it whenever the link is followed.)
\* after.failed: the request was refused / the helper raised.
Keep(before, a, after) == Min(Min(a.size, Len(before.content)), Len(after.content))
AnyField(a) == a.has_perm \/ a.has_own \/ a.has_time \/ a.has_size
LinkSame(before, after) == after.luid = before.luid /\ after.lgid = before.lgid /\ after.lmtime = before.lmtime
FileBad(before, a, after) ==
     (IF a.has_size /\ Len(after.content) # a.size THEN {"P_size"} ELSE {})
  \cup (IF a.has_size /\ ( Len(after.content) < Min(a.size, Len(before.content))
                         \/ SubSeq(after.content, 1, Keep(before, a, after)) # SubSeq(before.content, 1, Keep(before, a, after)))
        THEN {"P_keeps_leading_bytes"} ELSE {})
  \cup (IF a.has_size /\ \E i \in (Len(before.content) + 1)..Len(after.content) : after.content[i] # 0
        THEN {"P_pads_with_zeros"} ELSE {})
  \cup (IF ~a.has_size /\ after.content # before.content THEN {"P_content_untouched"} ELSE {})
  \cup (IF a.has_perm /\ after.perm # a.perm THEN {"P_mode"} ELSE {})
  \cup (IF ~a.has_perm /\ after.perm # before.perm THEN {"P_mode_untouched"} ELSE {})
  \cup (IF a.has_own /\ (after.uid # a.uid \/ after.gid # a.gid) THEN {"P_owner"} ELSE {})
  \cup (IF ~a.has_own /\ (after.uid # before.uid \/ after.gid # before.gid) THEN {"P_owner_untouched"} ELSE {})
  \cup (IF a.has_time /\ ~a.time_now /\ (after.atime # a.atime \/ (~a.has_size /\ after.mtime # a.mtime))
        THEN {"P_times"} ELSE {})
  \cup (IF a.has_time /\ a.time_now /\ ~(Le(a.now_lo, after.atime) /\ Le(after.atime, a.now_hi)
                                          /\ (a.has_size \/ (Le(a.now_lo, after.mtime) /\ Le(after.mtime, a.now_hi))))
        THEN {"P_times_now"} ELSE {})
  \* a size change stamps mtime with the clock (os.truncate does too): mtime is only demanded without one
  \cup (IF ~a.has_time /\ ~a.has_size /\ (after.atime # before.atime \/ after.mtime # before.mtime)
        THEN {"P_times_untouched"} ELSE {})
Bad(before, a, after) ==
  IF before.link = "dangling"
  THEN (IF AnyField(a) /\ ~after.failed THEN {"P_dangling_link_must_fail"} ELSE {})
       \cup (IF ~LinkSame(before, after) THEN {"P_link_itself_untouched"} ELSE {})
  ELSE FileBad(before, a, after)
       \cup (IF after.failed THEN {"P_call_failed"} ELSE {})
       \cup (IF before.link = "link" /\ ~LinkSame(before, after) THEN {"P_link_itself_untouched"} ELSE {})

(* ---- the helper, statement by statement ---- *)
VARIABLES file0, attr, file, pc
vars == <<file0, attr, file, pc>>

SeqsUpTo(n) == UNION {[1..k -> Bytes] : k \in 0..n}
Attrs == [has_perm : BOOLEAN, perm : Perms, has_own : BOOLEAN, uid : Ids, gid : Ids,
          has_time : BOOLEAN, atime : Times, mtime : Times, time_now : {FALSE}, now_lo : {<<0, 0>>}, now_hi : {<<0, 0>>},
          has_size : BOOLEAN, size : 0..(MaxLen + 1)]
\* absent fields carry one fixed value (no point exploring values that are never looked at)
First(S) == CHOOSE x \in S : TRUE
Normal(a) == /\ (~a.has_perm => a.perm = First(Perms))
             /\ (~a.has_own => a.uid = First(Ids) /\ a.gid = First(Ids))
             /\ (~a.has_time => a.atime = First(Times) /\ a.mtime = First(Times))
             /\ (~a.has_size => a.size = 0)

PlainFile(c, p) == [content |-> c, perm |-> p, uid |-> First(Ids), gid |-> First(Ids), atime |-> <<9, 9>>, mtime |-> <<9, 8>>,
                    link |-> "none", luid |-> 0, lgid |-> 0, lmtime |-> <<0, 0>>, failed |-> FALSE]
\* plain files of every content; through a link (own owner 7:7, own mtime <<5, 5>>) one content is enough
Init == /\ file0 \in {PlainFile(c, p) : c \in SeqsUpTo(MaxLen), p \in Perms}
                    \cup {[PlainFile(<<1, 2>>, p) EXCEPT !.link = l, !.luid = 7, !.lgid = 7, !.lmtime = <<5, 5>>] :
                           p \in Perms, l \in Links \ {"none"}}
        /\ attr \in {a \in Attrs : Normal(a)}
        /\ file = file0 /\ pc = "chmod"

\* a statement that follows the link raises on a dangling one: the helper stops there
Fails == file.link = "dangling"
Raise == file' = [file EXCEPT !.failed = TRUE] /\ pc' = "done"
\* NoFollowOwnTime (seeded defect): chown / utime act on the served name itself
OnLink == NoFollowOwnTime /\ file.link # "none"
Chmod == /\ pc = "chmod"
         /\ IF attr.has_perm /\ Fails THEN Raise
            ELSE /\ pc' = "chown"
                 /\ file' = IF attr.has_perm THEN [file EXCEPT !.perm = attr.perm] ELSE file
Chown == /\ pc = "chown"
         /\ IF attr.has_own /\ Fails /\ ~OnLink THEN Raise
            ELSE /\ pc' = "utime"
                 /\ file' = IF ~attr.has_own THEN file
                            ELSE IF OnLink THEN [file EXCEPT !.luid = attr.uid, !.lgid = attr.gid]
                            ELSE [file EXCEPT !.uid = attr.uid, !.gid = attr.gid]
Utime == /\ pc = "utime"
         /\ IF attr.has_time /\ Fails /\ ~OnLink THEN Raise
            ELSE /\ pc' = "open"
                 /\ file' = IF ~attr.has_time THEN file
                            ELSE IF OnLink THEN [file EXCEPT !.lmtime = attr.mtime]
                            ELSE [file EXCEPT !.atime = attr.atime, !.mtime = attr.mtime]
OpenForSize == /\ pc = "open"
               /\ IF ~attr.has_size THEN pc' = "done" /\ file' = file
                  ELSE IF Fails THEN Raise
                  ELSE /\ pc' = "truncate"
                       /\ file' = IF ZeroOnOpen THEN [file EXCEPT !.content = <<>>, !.mtime = Now] ELSE file
Truncate == /\ pc = "truncate" /\ pc' = "done"
            /\ file' = [file EXCEPT !.content = Resize(@, attr.size), !.mtime = Now]
Next == (Chmod \/ Chown \/ Utime \/ OpenForSize \/ Truncate) /\ UNCHANGED <<file0, attr>>
Spec == Init /\ [][Next]_vars

\* the five statements as one function (what a complete run of the helper leaves behind)
\* for a plain file or a link to one, links followed
HelperResult(f, a) ==
  [f EXCEPT !.content = IF a.has_size THEN Resize(IF ZeroOnOpen THEN <<>> ELSE f.content, a.size) ELSE f.content,
            !.perm  = IF a.has_perm THEN a.perm ELSE f.perm,
            !.uid   = IF a.has_own THEN a.uid ELSE f.uid,
            !.gid   = IF a.has_own THEN a.gid ELSE f.gid,
            !.atime = IF a.has_time THEN a.atime ELSE f.atime,
            !.mtime = IF a.has_size THEN Now ELSE IF a.has_time THEN a.mtime ELSE f.mtime]

(* ---- properties ---- *)
StepsCompose == (pc = "done" /\ file0.link # "dangling" /\ ~NoFollowOwnTime) => file = HelperResult(file0, attr)   \* used by SetAttr_Session
Verdict           == IF pc = "done" THEN Bad(file0, attr, file) ELSE {}
LocalMeaning      == Verdict = {}                                   \* the statement of C31 on the model
KeepsLeadingBytes == "P_keeps_leading_bytes" \notin Verdict         \* its "in particular" clause
PadsWithZeros     == "P_pads_with_zeros" \notin Verdict
SizeSet           == "P_size" \notin Verdict
\* a field never moves before its own statement runs (statement order of the helper)
Ordered == /\ (pc = "chmod" => file = file0)
           /\ (pc \in {"chmod", "chown", "utime", "open"} => file.content = file0.content)
\* spec -> code replay: one case per (file, attr)
Emit == pc = "done" => PrintT(<<"CASE", file0, attr, file>>)
=============================================================================
