-------------------------- MODULE ChannelIds_Trace --------------------------
(* code -> spec for C23.  One trace = the id events of one real Transport, in      *)
(* linearization order (recorded under the transport lock / atomically with the     *)
(* ChannelMap operation by the driver):                                              *)
(*   alloc  who id ctr      _next_channel returned id to thread who; ctr = counter before *)
(*   put    who id          ChannelMap.put(id, channel) by thread who                 *)
(*   del    id cause pending  ChannelMap.delete(id) while handling CLOSE ("close") or   *)
(*                          CHANNEL_OPEN_FAILURE ("failure"; pending = a local open of  *)
(*                          that id was waiting for its answer)                          *)
(*   timeout id             open_channel(id) raised "Timeout opening channel"          *)
(*   drop   who             thread who gave up the id it had allocated (open rejected) *)
(* live0 / final: ids registered before the first and after the last event.          *)
(* The design spec's variables are updated with its own operators and its invariants  *)
(* are evaluated on every new state (N = 2^24).                                        *)
EXTENDS ChannelIds, Json, IOUtils, TLCExt
Batch == JsonDeserialize(IOEnv.TRACE_FILE)
VARIABLES tid, l, bad
tvars == <<tid, l, bad, vars>>
T == Batch[tid]
Len_ == Len(T.events)
Fails(ok, name) == IF ok THEN {} ELSE {name}
SeqSet(q) == {q[i] : i \in 1..Len(q)}
TInit == /\ tid \in 1..Len(Batch) /\ l = 1 /\ bad = {}
         /\ counter = Batch[tid].counter0
         /\ map = SeqSet(Batch[tid].live0) /\ open = [i \in SeqSet(Batch[tid].live0) |-> 1]
         /\ pend = <<>> /\ inwin = 0 /\ await = {}
TNext ==
  /\ l <= Len_ /\ l' = l + 1 /\ tid' = tid /\ inwin' = inwin /\ await' = await
  /\ LET e == T.events[l] IN
     CASE e.op = "alloc" ->
            /\ AllocBy(e.who, e.id) /\ UNCHANGED <<open, map>>
            /\ bad' = Fails(e.id \notin map /\ e.id \notin DOMAIN open /\ PendingFresh', "P_id_in_use")
                      \cup Fails(InRange', "P_id_range")
                      \cup Fails(e.ctr = counter, "C_counter_drift")
                      \cup Fails(~(e.ctr \in Ids) \/ e.id = NextFree(e.ctr, map), "C_not_next_free")
       [] e.op = "put" ->
            /\ RegisterBy(e.who, e.id) /\ UNCHANGED counter
            /\ bad' = Fails(Unique', "P_id_shared_by_two_channels")
                      \cup Fails(InRange', "P_id_range")
                      \cup Fails(MapAgrees', "C_map")
       [] e.op = "del" ->
            \* cause "close": CLOSE handled for that channel (it is closed); "failure": CHANNEL_OPEN_FAILURE,
            \* which closes a channel only if its local open was still waiting for the answer (e.pending)
            /\ (IF e.id \notin DOMAIN open THEN map' = map \ {e.id} /\ open' = open
                ELSE IF e.cause = "failure" /\ ~e.pending THEN map' = map \ {e.id} /\ open' = open
                ELSE Unregister(e.id))
            /\ UNCHANGED <<counter, pend>>
            /\ bad' = Fails(MapAgrees', "C_live_channel_unregistered")
       [] e.op = "timeout" ->          \* open_channel gave up waiting for the answer: the application has no channel
            /\ open' = IF e.id \in DOMAIN open THEN Dec(open, e.id) ELSE open
            /\ UNCHANGED <<counter, map, pend>>
            /\ bad' = {}
       [] e.op = "drop" ->
            /\ pend' = IF e.who \in DOMAIN pend THEN Without(pend, e.who) ELSE pend
            /\ UNCHANGED <<counter, open, map>>
            /\ bad' = {}
\* the channels registered in the real map when every thread had finished
Final ==
  /\ l = Len_ + 1 /\ l' = l + 1 /\ tid' = tid /\ UNCHANGED vars
  /\ bad' = Fails(map = SeqSet(T.final), "C_final_map") \cup Fails(Unique /\ InRange, "P_final_ids")
TSpec == TInit /\ [][TNext \/ Final]_tvars
Report == /\ (bad # {} => PrintT(<<"VERDICT", tid, l - 1, bad>>))
          /\ (l = Len_ + 2 => PrintT(<<"DONE", tid>>))
=============================================================================
