------------------------ MODULE KeyFileFormat_Trace ------------------------
(* code -> spec for C37: each record is one concrete run of an abstract case of  *)
(* KeyFileFormat against a real loader class:                                     *)
(*   cls, kt, fmt, stage, idx, class, pw   the abstract case (idx 0 = whole file) *)
(*   entry     "file" = from_private_key_file, "fobj" = from_private_key,         *)
(*             "from_path" = PKey.from_path (not named by the statement)          *)
(*   outcome   "raised" | "loaded" | "crashed" (the interpreter died) |           *)
(*             "capped" (bcrypt round count from the file above the driver's cap) *)
(*             | "stuck"                                                          *)
(*   exc = [cls, mro]                      the exception that escaped (MRO names)  *)
(*   key = [derived_eq, verify_ok, same]   the loaded key, inspected independently:*)
(*             does its public half follow from its private half, does a signature *)
(*             made with the private half verify under the public half, is it the  *)
(*             key the file was made from                                          *)
(* The step installs the case as the model's injection and judges the observation *)
(* with the design spec's Allowed / InModel / Outcomes / RawSet.                   *)
EXTENDS KeyFileFormat, Json, IOUtils, TLCExt
Batch == JsonDeserialize(IOEnv.TRACE_FILE)
VARIABLES tid, l, bad
tvars == <<tid, l, bad, vars>>
R == Batch[tid]
K == Case(R.stage, R.idx, R.class, R.pw)
Known == R.cls \in AllLoaders /\ R.kt \in KeyTypes /\ R.fmt \in Formats /\ Exists(R.kt, R.fmt)
         /\ R.stage \in Stages /\ InModel(R.cls, R.kt, R.fmt, K)

\* the calls the statement names
Listed == R.entry \in {"file", "fobj"}
Raised  == R.outcome = "raised"
Loaded  == R.outcome = "loaded"
Crashed == R.outcome = "crashed"
Foreign == Raised /\ ~Allowed(R.exc.mro)
Consistent == R.key.derived_eq /\ R.key.verify_ok
HasClass(c) == \E j \in 1..Len(R.exc.mro) : R.exc.mro[j] = c

\* the observation in the vocabulary of the design spec's variable `surfaced`
Observed ==
  IF Loaded THEN (IF ~Consistent THEN "loaded_mismatch" ELSE IF R.key.same THEN "loaded_same" ELSE "loaded_other")
  ELSE IF Raised THEN (IF HasClass("PasswordRequiredException") THEN "PasswordRequiredException"
                       ELSE IF Allowed(R.exc.mro) THEN "SSHException" ELSE R.exc.cls)
  ELSE R.outcome

\* (Outcomes is the design's: the trace cfg sets Guarded and DerivesPublic; RawSet is the pinned tree's prediction)
Sharp  == SharpClass(R.cls, R.kt, R.fmt, K) # "-"           \* a precise prediction was made

\* (one initial state per record: the design spec's Init would offer every loader x key type x format for each)
TInit == /\ tid \in 1..Len(Batch) /\ l = 1 /\ bad = {}
         /\ cls = Batch[tid].cls /\ kt = Batch[tid].kt /\ fmt = Batch[tid].fmt /\ pos = 1 /\ inj = <<>> /\ surfaced = {}
TNext == LET known == Known          \* (LET: evaluated once per record)
             foreign == Foreign
             obs == Observed IN
         /\ l = 1 /\ l' = 2 /\ tid' = tid
         /\ cls' = R.cls /\ kt' = R.kt /\ fmt' = R.fmt /\ pos' = 1 /\ inj' = K /\ surfaced' = {obs}
         /\ bad' = (IF foreign /\ Listed THEN {"P_other_exception_class"} ELSE {})
                   \cup (IF Crashed /\ Listed THEN {"P_interpreter_abort"} ELSE {})
                   \cup (IF Loaded /\ ~Consistent THEN {"P_halves_disagree"} ELSE {})
                   \cup (IF (foreign \/ Crashed) /\ ~Listed THEN {"C_from_path_other_class"} ELSE {})
                   \cup (IF known THEN {} ELSE {"C_case_not_in_model"})
                   \cup (IF known /\ Listed /\ (Loaded \/ (Raised /\ ~foreign)) /\ obs \notin Outcomes(R.cls, R.kt, R.fmt, K)
                           THEN {"C_outcome_not_in_model"} ELSE {})
                   \cup (IF known /\ Listed /\ foreign /\ R.exc.cls \notin RawSet(R.cls, R.kt, R.fmt, K)
                           THEN {"C_foreign_class_not_predicted"} ELSE {})
                   \cup (IF known /\ Listed /\ ~foreign /\ (Raised \/ Loaded) /\ Sharp
                           THEN {"C_predicted_foreign_class_not_seen"} ELSE {})
                   \cup (IF R.class = "intact" /\ R.pw = "none" /\ Enc(R.fmt) /\ R.cls = Natural(R.kt) /\ Listed
                            /\ obs # "PasswordRequiredException"
                           THEN {"C_missing_passphrase_not_PasswordRequired"} ELSE {})
                   \cup (IF R.class = "intact" /\ R.pw \in {PwFit(R.fmt), "unneeded"} /\ R.cls = Natural(R.kt) /\ Listed
                            /\ obs # "loaded_same"
                           THEN {"C_intact_file_not_loaded"} ELSE {})
                   \cup (IF R.outcome = "capped" THEN {"C_kdf_rounds_taken_from_file"} ELSE {})
                   \cup (IF R.outcome = "stuck" THEN {"C_stuck"} ELSE {})
TSpec == TInit /\ [][TNext]_tvars
Report == /\ (bad # {} => PrintT(<<"VERDICT", tid, bad>>))
          /\ (l = 2 => PrintT(<<"DONE", tid>>))
=============================================================================
