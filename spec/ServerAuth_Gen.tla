--------------------------- MODULE ServerAuth_Gen ---------------------------
(* spec -> code for C14 / C16.  ServerAuth with the history of client messages.  States  *)
(* are identified by Control (VIEW), so TLC keeps one witness history per control state   *)
(* it reaches; Emit prints it (an INVARIANT is evaluated once per new state).  The check  *)
(* runs every witness, extended by each message of Messages, on a real connection and     *)
(* lets ServerAuth_Trace judge what the code did.  The same run model-checks ServerAuth   *)
(* (hist is outside the VIEW and does not enlarge the search).                            *)
EXTENDS ServerAuth
VARIABLE hist
Enc(q) == <<q.k, q.user, q.service, q.method, q.cb, q.sig, q.mic, q.change, q.mechs, q.mech_ok, q.tok, q.allowed>>
CfgName == CHOOSE n \in ConfigNames : CfgOf(n) = cfg
GInit == Init /\ hist = <<>>
GNext == Next /\ hist' = Append(hist, Enc(req'))
GSpec == GInit /\ [][GNext]_<<vars, hist>>
Emit  == PrintT(<<"WIT", CfgName, failCount, authenticated, alive, mode, expect, offer, hist>>)
ASSUME PrintT(<<"MSGS", {Enc(q) : q \in Messages}>>)
=============================================================================
