------------------------ MODULE BufferedStream_Trace ------------------------
(* code -> spec for C42.  A trace is one BufferedFile (or ChannelFile) over a      *)
(* scripted stream: src = the bytes the stream will deliver, buf = the bufsize it  *)
(* was opened with, events = the calls made.  Every event carries the value        *)
(* returned (as bytes), the bytes the stream accepted during the call (sunk), and  *)
(* the object's cheap internal state afterwards (rbuf, wbuf, how much the stream   *)
(* has delivered).  The step for line l is always taken (total verdict): the       *)
(* observation becomes an idle state of BufferedStream and is judged by its        *)
(* clause sets ReadBad / WriteBad (P_ = statement, C_ = conformance) and its       *)
(* conservation invariants (C_: they speak about internal buffers).                *)
EXTENDS BufferedStream, Json, IOUtils, TLCExt
Batch == JsonDeserialize(IOEnv.TRACE_FILE)
VARIABLES tid, l, bad, dead
tvars == <<tid, l, bad, dead, vars>>
T == Batch[tid]
TInit == /\ tid \in 1..Len(Batch) /\ l = 1 /\ bad = {} /\ dead = FALSE
         /\ src = Batch[tid].src /\ Buf = Batch[tid].buf /\ side = "rw"
         /\ off = 0 /\ rbuf = <<>> /\ line = <<>> /\ arg = 0 /\ eof = FALSE
         /\ wbuf = <<>> /\ pend = <<>> /\ sink = <<>> /\ written = <<>> /\ returned = <<>>
         /\ pc = "idle" /\ closed = FALSE /\ ops = 0
         /\ lastop = "none" /\ lastret = <<>> /\ lastexp = <<>>
         /\ ev = Event("init", "none", 0, <<>>, 0, 0)
IsRead(e)  == e.op \in {"read", "readline"}
IsWrite(e) == e.op \in {"write", "flush", "close"}
Unreturned == Drop(src, Len(returned))
TNext == /\ l <= Len(T.events) /\ l' = l + 1 /\ tid' = tid
         /\ LET e == T.events[l] IN
              /\ UNCHANGED <<Buf, side>>
              /\ src' = src /\ off' = e.off /\ rbuf' = e.rbuf /\ wbuf' = e.wbuf
              /\ line' = <<>> /\ eof' = FALSE /\ pend' = <<>> /\ pc' = "idle" /\ ev' = ev
              /\ arg' = e.n /\ ops' = ops + 1 /\ lastop' = e.op /\ lastret' = e.ret
              /\ closed' = (closed \/ e.op = "close")
              /\ returned' = IF IsRead(e) THEN returned \o e.ret ELSE returned
              /\ written' = IF e.op = "write" THEN written \o e.data ELSE written
              /\ sink' = sink \o e.sunk
              /\ lastexp' = IF e.op = "read" THEN RefRead(Unreturned, e.n)
                            ELSE IF e.op = "readline" THEN RefLine(Unreturned, e.n) ELSE <<>>
              /\ bad' = IF dead THEN {} ELSE
                          (IF e.raised THEN {"P_call_raised"} ELSE {})
                     \cup (IF IsRead(e) /\ ~e.raised THEN ReadBad(e.op, e.n, Unreturned, e.ret) ELSE {})
                     \cup (IF IsWrite(e) /\ ~e.raised THEN WriteBad(e.op, Buf, written', sink') ELSE {})
                     \cup (IF ~e.raised /\ ~ReadConservation' THEN {"C_read_conservation"} ELSE {})
                     \cup (IF ~e.raised /\ ~WriteConservation' THEN {"C_write_conservation"} ELSE {})
                     \cup (IF IsRead(e) /\ ~e.raised /\ e.ret # lastexp' THEN {"C_differs_from_reference"} ELSE {})
              /\ dead' = (dead \/ e.raised \/ (IsRead(e) /\ ~IsPrefix(e.ret, Unreturned))
                               \/ ~IsPrefix(sink', written'))
TSpec == TInit /\ [][TNext]_tvars
Report == /\ (bad # {} => PrintT(<<"VERDICT", tid, l - 1, T.events[l - 1].op, bad>>))
          /\ (l = Len(T.events) + 1 => PrintT(<<"DONE", tid>>))
=============================================================================
