------------------------ MODULE BufferedStream_Trace ------------------------
(* code -> spec for C42.  A trace is one BufferedFile (or ChannelFile) over a      *)
(* scripted stream: src = the bytes the stream will deliver, buf = the bufsize it  *)
(* was opened with, events = the calls made.  Every event carries the value        *)
(* returned (as bytes), the bytes the stream accepted during the call (sunk), and  *)
(* the object's cheap internal state afterwards (rbuf, wbuf, how much the stream   *)
(* has delivered).  The step for line l is always taken (total verdict): the       *)
(* observation becomes an idle state of BufferedStream and is judged by its        *)
(* clause sets ReadBad / WriteBad (P_ = statement, C_ = conformance) and its       *)
(* conservation invariants (C_: they speak about internal buffers).                *)
EXTENDS BufferedStream, Json, IOUtils, TLCExt
Batch == JsonDeserialize(IOEnv.TRACE_FILE)
VARIABLES tid, l, bad, dead
tvars == <<tid, l, bad, dead, vars>>
T == Batch[tid]
TInit == /\ tid \in 1..Len(Batch) /\ l = 1 /\ bad = {} /\ dead = FALSE
         /\ src = Batch[tid].src /\ Buf = Batch[tid].buf /\ side = "rw"
         /\ off = 0 /\ rbuf = <<>> /\ line = <<>> /\ arg = 0 /\ eof = FALSE
         /\ wbuf = <<>> /\ pend = <<>> /\ sink = <<>> /\ written = <<>> /\ returned = <<>>
         /\ pc = "idle" /\ closed = FALSE /\ ops = 0
         /\ lastop = "none" /\ lastret = <<>> /\ lastexp = <<>>
         /\ ev = Event("init", "none", 0, <<>>, 0, 0)
         /\ wx = [start |-> <<>>, restore |-> <<>>, viaflush |-> FALSE, wpos |-> 0, fails |-> 0, err |-> FALSE]
IsRead(e)  == e.op \in {"read", "readline"}
IsWrite(e) == e.op \in {"write", "flush", "close"}
Unreturned == Drop(src, Len(returned))
TNext == /\ l <= Len(T.events) /\ l' = l + 1 /\ tid' = tid
         /\ LET e == T.events[l] IN
              /\ UNCHANGED <<Buf, side>>
              /\ src' = src /\ off' = e.off /\ rbuf' = e.rbuf /\ wbuf' = e.wbuf
              /\ line' = <<>> /\ eof' = FALSE /\ pend' = <<>> /\ pc' = "idle" /\ ev' = ev
              /\ arg' = e.n /\ ops' = ops + 1 /\ lastop' = e.op /\ lastret' = e.ret
              /\ closed' = (closed \/ e.op = "close")
              /\ returned' = IF IsRead(e) THEN returned \o e.ret ELSE returned
              /\ written' = IF e.op = "write" THEN written \o e.data ELSE written
              /\ sink' = sink \o e.sunk
              /\ lastexp' = IF e.op = "read" THEN RefRead(Unreturned, e.n)
                            ELSE IF e.op = "readline" THEN RefLine(Unreturned, e.n) ELSE <<>>
              \* e.inject: the driver made the stream's _write raise during this call (1: before it took a byte of the
              \* running _write_all, 2: after it took some); the call must then raise (the error is reported) and every
              \* later flush / close that returns must still have delivered everything, once, in order.  wx.fails sums
              \* the injections (>= 2: some came after a partial push - 4.0.0 then sends the first part again, which the
              \* statement does not clearly forbid: conformance only)
              /\ wx' = [wx EXCEPT !.fails = @ + e.inject, !.err = e.raised]
              /\ bad' = IF dead THEN {} ELSE
                          (IF e.raised /\ e.inject = 0 THEN {"P_call_raised"} ELSE {})
                     \cup (IF ~e.raised /\ e.inject > 0 THEN {"C_stream_error_swallowed"} ELSE {})
                     \cup (IF IsRead(e) /\ ~e.raised THEN ReadBad(e.op, e.n, Unreturned, e.ret) ELSE {})
                     \cup (IF IsWrite(e) /\ ~e.raised
                           THEN LET wb == WriteBad(e.op, Buf, written', sink') \ (IF wx'.fails > 0 THEN AfterFailure ELSE {})
                                IN IF wx'.fails >= 2 /\ wb # {} THEN {"C_resent_after_partial_failure"} ELSE wb
                           ELSE {})
                     \cup (IF ~e.raised /\ ~ReadConservation' THEN {"C_read_conservation"} ELSE {})
                     \cup (IF ~e.raised /\ ~WriteConservation' THEN {"C_write_conservation"} ELSE {})
                     \cup (IF IsRead(e) /\ ~e.raised /\ e.ret # lastexp' THEN {"C_differs_from_reference"} ELSE {})
              /\ dead' = (dead \/ (e.raised /\ e.inject = 0) \/ (IsRead(e) /\ ~IsPrefix(e.ret, Unreturned))
                               \/ ~IsPrefix(sink', written'))
TSpec == TInit /\ [][TNext]_tvars
Report == /\ (bad # {} => PrintT(<<"VERDICT", tid, l - 1, T.events[l - 1].op, bad>>))
          /\ (l = Len(T.events) + 1 => PrintT(<<"DONE", tid>>))
=============================================================================
