----------------------------- MODULE Kex_Trace -----------------------------
(* code -> spec for C06.  One record = one real session between two paramiko       *)
(* Transports (harness/drivers/kex.py: run_kex): the first exchange under a        *)
(* plaintext man in the middle, then re-exchanges; in exchange number alter_at      *)
(* (0 = first) at most one field of the server's reply was altered (in flight for   *)
(* the first exchange, at the server end for re-exchanges).  Per exchange the driver logs, from Transport._set_K_H /          *)
(* _verify_key / _activate_outbound / _parse_newkeys on BOTH peers:                 *)
(*   kc, ks, hc, hs, sidc, sids   K, H, session_id of client / server, interned     *)
(*                                (equal integers <=> equal byte values, 0 = unset) *)
(*   meth                         hash family of the kex method of this exchange    *)
(*   c_set, s_set                 _set_K_H ran on the client / server               *)
(*   c_newkeys_out, c_done        the client sent NEWKEYS / finished the exchange   *)
(*   shown                        the host key blob handed to _verify_key           *)
(*   sigok                        the signature the client received verifies over   *)
(*                                the client's H under `shown` with the negotiated  *)
(*                                algorithm (recomputed with `cryptography`)        *)
(*   hstruct                      H equals the hash of the RFC field list, rebuilt  *)
(*                                from the wire as the client saw it                *)
(* The step for exchange l is always taken; bad' = names of the clauses that fail.  *)
EXTENDS Kex, Json, IOUtils, TLCExt
Batch == JsonDeserialize(IOEnv.TRACE_FILE)
VARIABLES tid, l, bad
tvars == <<tid, l, bad, vars>>
R == Batch[tid]
NX == Len(R.exchanges)

TInit == tid \in 1..Len(Batch) /\ l = 1 /\ bad = {} /\ Init

Clause(ok, name) == IF ok THEN {} ELSE {name}

TNext ==
    /\ l <= NX /\ l' = l + 1 /\ tid' = tid
    /\ LET x  == R.exchanges[l]
           x0 == R.exchanges[1]
           isAltered == R.applied /\ l = R.alter_at + 1
           accepted  == x.c_newkeys_out \/ x.c_done \/ (l = NX /\ R.client_active)
       IN  /\ bad' = Clause(AgreeP(x.c_done, x.kc, x.ks, x.hc, x.hs, TRUE), "P_secret_or_hash_differs")
                     \cup Clause(AgreeP(x.c_done, 0, 0, 0, 0, x.sigok), "P_signature_does_not_verify_under_shown_key")
                     \cup Clause((x.c_set => SidP(x.sidc, x0.hc)) /\ (x.s_set => SidP(x.sids, x0.hs)),
                                 "P_session_id_changed")
                     \cup Clause(AbortP(isAltered, accepted), "P_altered_reply_accepted")
                     \cup Clause(x.c_set => x.hstruct, "C_exchange_hash_structure")
                     \cup Clause(x.c_done /\ l = NX => R.remote_key = x.shown, "C_remote_key_is_not_the_shown_key")
                     \cup Clause(x.c_done /\ ~isAltered => x.shown = R.real, "C_shown_key_is_not_the_servers")
           \* the design spec's variables take the observed values
           /\ n' = l - 1 /\ meth' = x.meth /\ meths' = Append(meths, x.meth)
           /\ cst' = IF x.c_done THEN "done" ELSE IF x.c_set THEN "aborted" ELSE "init_sent"
           /\ sst' = IF x.s_set THEN "replied" ELSE "idle"
           /\ cK' = x.kc /\ cH' = x.hc /\ cSid' = x.sidc /\ cShown' = x.shown /\ cSig' = x.sigok
           /\ cHostKey' = IF x.c_verified THEN x.shown ELSE cHostKey
           /\ sK' = x.ks /\ sH' = x.hs /\ sSid' = x.sids
           /\ altered' = (IF isAltered THEN {R.alter} ELSE {}) /\ attacked' = R.applied
           /\ first' = <<x0.hc, x0.hs>>
           /\ UNCHANGED <<ce, se, cgrp, net>>
TSpec == TInit /\ [][TNext]_tvars
Report == /\ (bad # {} => PrintT(<<"VERDICT", tid, l - 1, bad>>))
          /\ (l = NX + 1 => PrintT(<<"DONE", tid>>))
=============================================================================
