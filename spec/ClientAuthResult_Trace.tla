----------------------- MODULE ClientAuthResult_Trace -----------------------
(* code -> spec for X03.  One trace = one real connection (client Transport against a  *)
(* real server Transport whose application answers as scripted) with a sequence of     *)
(* auth_password calls:  calls[i] = [mode, ans, out, from]                              *)
(*   out  = "ret_empty" | "ret_list" | "raise_auth" | "raise_badtype" | "event" | "other" *)
(*   from = index of the request whose method list came back (every server answer       *)
(*          carries a list with a token naming its request), i when there is no list     *)
(* The recorded answers are replayed through the design spec (the code as it is:        *)
(* Fresh = FALSE); P_ clauses are the statement, C_ clauses conformance to the model.   *)
EXTENDS ClientAuthResult, Json, IOUtils, TLCExt
Batch == JsonDeserialize(IOEnv.TRACE_FILE)
VARIABLES tid, l, bad
tvars == <<tid, l, bad, vars>>
T == Batch[tid]
N == Len(T.calls)
TInit == tid \in 1..Len(Batch) /\ l = 1 /\ bad = {} /\ Init
\* the three steps of the design spec for call l, with the recorded mode and answer
AfterAnswer(sv, sb, a, i) == [saved |-> CASE a = "partial" -> "partial" [] a = "fail_unlisted" -> "badtype" [] OTHER -> sv,
                              by    |-> IF a \in {"partial", "fail_unlisted"} THEN i ELSE sb]
TStep ==
  /\ l <= N /\ l' = l + 1 /\ UNCHANGED tid
  /\ LET c == T.calls[l]
         s == AfterAnswer(saved, savedBy, c.ans, l)
         au == (c.ans = "ok")
         modelOut == IF c.mode = "event" THEN "event" ELSE IF au THEN "ret_empty"
                     ELSE CASE s.saved = "none" -> "raise_auth" [] s.saved = "partial" -> "ret_list" [] OTHER -> "raise_badtype"
         modelFrom == IF c.mode = "event" \/ au \/ s.saved = "none" THEN l ELSE s.by
     IN /\ k' = l /\ mode' = c.mode /\ ans' = c.ans /\ pc' = "idle" /\ authed' = au
        /\ saved' = IF c.mode = "event" \/ au THEN s.saved ELSE "none"
        /\ savedBy' = IF c.mode = "event" \/ au THEN s.by ELSE 0
        /\ outs' = Append(outs, [mode |-> c.mode, ans |-> c.ans, out |-> c.out, from |-> c.from])
        /\ bad' = bad \cup (IF c.mode = "block" /\ (c.out # Expected(c.ans) \/ c.from # l)
                            THEN {"P_report_not_about_this_request"} ELSE {})
                      \cup (IF c.out # modelOut \/ c.from # modelFrom THEN {"C_differs_from_model"} ELSE {})
                      \cup (IF c.authed # au THEN {"P_is_authenticated_disagrees_with_server"} ELSE {})
TSpec == TInit /\ [][TStep]_tvars
Report2 == l = N + 1 => /\ (bad # {} => PrintT(<<"VERDICT", tid, bad>>))
                        /\ PrintT(<<"DONE", tid>>)
=============================================================================
