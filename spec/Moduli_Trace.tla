---------------------------- MODULE Moduli_Trace ----------------------------
(* code -> spec for C43: each record is one real ModulusPack filled by read_file()  *)
(* from a generated moduli file, followed by one get_modulus(min, prefer, max):     *)
(*   lines  = the line records the file was rendered from (fields as in Moduli.tla) *)
(*   req    = <<min, prefer, max>>                                                  *)
(*   got    = index of the line whose modulus was returned, 0 if get_modulus raised *)
(*            "no moduli available", -1 if the returned modulus is in no line       *)
(* P_ clauses are the statement of C43; C_ clauses compare with the three loops of   *)
(* get_modulus as written (pinned) and as repaired.                                 *)
EXTENDS Moduli, Json, IOUtils, TLCExt
Batch == JsonDeserialize(IOEnv.TRACE_FILE)
VARIABLES tid, l, bad
tvars == <<tid, l, bad, vars>>
R == Batch[tid]

SizeSet(f)        == BitSizes(f)
ModelOffer(f, r, fix) == IF SizeSet(f) = {} THEN {}
                         ELSE Groups(f, ChosenBits(SizeSet(f), r[1], r[2], r[3], fix))
SomeInRange(f, r) == InRange(f, r[1], r[3], ByBits) # {} /\ InRange(f, r[1], r[3], BySize) # {}

Clauses(f, r, got) ==
    IF got \in {0, -2} THEN        \* 0: SSHException "no moduli available"; -2: any other exception
         (IF SomeInRange(f, r) THEN {"P_no_offer_with_group_in_range"} ELSE {})
         \cup (IF ValidIdx(f) # {} THEN {"C_raised_with_moduli"} ELSE {})
         \cup (IF got = -2 THEN {"C_raised_other_than_no_moduli"} ELSE {})
    ELSE IF got \notin 1..Len(f) THEN {"P_offered_unknown_group"}
    ELSE (IF Valid(f[got]) THEN {} ELSE {"P_offered_rejected_line"})
         \cup (IF ~Valid(f[got]) \/ got \in Acceptable(f, r[1], r[2], r[3]) THEN {}
               ELSE IF got \in ModelOffer(f, r, FALSE) /\ r[2] < r[1]
                       /\ ModelOffer(f, r, TRUE) \subseteq Acceptable(f, r[1], r[2], r[3])
                    THEN {"P_select_below_min_when_prefer_lt_min"}
                    ELSE {"P_select_wrong_size"})
         \cup (IF got \in ModelOffer(f, r, FALSE) THEN {} ELSE {"C_differs_from_pinned_loops"})
         \cup (IF got \in ModelOffer(f, r, TRUE) THEN {} ELSE {"C_differs_from_repaired_loops"})

TInit == /\ tid \in 1..Len(Batch) /\ l = 1 /\ bad = {}
         /\ file = <<>> /\ n = 0 /\ pack = <<>> /\ discarded = {} /\ req = <<>> /\ status = "reading" /\ offer = {}
         /\ cache = {} /\ nfiles = 1 /\ prev = <<>>
TNext == /\ l = 1 /\ l' = 2 /\ tid' = tid
         /\ file' = R.lines /\ n' = Len(R.lines) /\ req' = R.req
         /\ UNCHANGED <<pack, discarded, status, offer, cache, nfiles, prev>>
         /\ bad' = Clauses(R.lines, R.req, R.got)
TSpec == TInit /\ [][TNext]_tvars
Report == /\ (bad # {} => PrintT(<<"VERDICT", tid, bad>>))
          /\ (l = 2 => PrintT(<<"DONE", tid>>))
=============================================================================
