--------------------------- MODULE CheckFile_Trace ---------------------------
(* code -> spec for C32.  One record = one check-file request served by the real   *)
(* SFTPServer.  Two passes over the same batch:                                    *)
(*   phase 1  the spec prints the ranges that must be hashed (RANGES lines); the   *)
(*            driver hashes exactly those ranges of the served file with hashlib   *)
(*            and sets eq[i] = (i-th returned digest = digest of the i-th range)   *)
(*   phase 2  the verdict: response kind, number of digests, eq, promptness        *)
(* Fields: size start length bsize (request), phase, and in phase 2:               *)
(*   kind  "reply" | "status" | "none" (no response before the driver gave up)     *)
(*   nd    number of whole digests in the reply, tail = left-over bytes            *)
(*   eq    Seq(BOOLEAN), one per i <= Min(nd, NBlocks)            (derived)        *)
EXTENDS CheckFile, Json, IOUtils, TLCExt
Batch == JsonDeserialize(IOEnv.TRACE_FILE)
VARIABLES tid, l, bad
tvars == <<tid, l, bad, vars>>
R == Batch[tid]

Want  == SpecBlocks(R.size, R.start, R.length, R.bsize)
Deg   == Degenerate(R.size, R.start, R.length, R.bsize)
Cls   == Class(R.size, R.start, R.length, R.bsize)

Clauses ==
  IF R.phase = 1 THEN {}
  ELSE (IF R.kind = "none" THEN {"P_unanswered"} ELSE {})
       \cup (IF R.kind = "reply" /\ ~Deg
                /\ (R.nd # Len(Want) \/ R.tail # 0 \/ Len(R.eq) # Len(Want) \/ \E i \in 1..Len(R.eq) : ~R.eq[i])
             THEN {"P_wrong_hash"} ELSE {})
       \cup (IF R.kind = "status" /\ ~Deg /\ ~EmptyRange(R.size, R.start, R.length)
             THEN {"P_refused"} ELSE {})
       \cup (IF R.kind = "reply" /\ Deg THEN {"C_small_block_accepted"} ELSE {})
       \* algs = the request's list of hash names, named = the algorithm the reply says it used ("" = not observed:
       \* SFTPFile.check drops it); eq is computed by the driver for the algorithm the reply names
       \cup (IF R.kind = "reply" /\ R.named # "" /\ R.named \notin Listed(R.algs) THEN {"P_unrequested_algorithm"} ELSE {})
       \* the extension's draft wants the first listed algorithm the server has; the property statement does not say so
       \cup (IF R.kind = "reply" /\ R.named # "" /\ R.named # FirstSupported(R.algs) THEN {"C_not_first_supported_algorithm"} ELSE {})


TInit == tid \in 1..Len(Batch) /\ l = 1 /\ bad = {} /\ Init
TNext == /\ l = 1 /\ l' = 2 /\ tid' = tid
         /\ bad' = Clauses
         /\ UNCHANGED vars
TSpec == TInit /\ [][TNext]_tvars
Report == /\ (bad # {} => PrintT(<<"VERDICT", tid, Cls, bad>>))
          /\ (l = 2 /\ R.phase = 1 => PrintT(<<"RANGES", tid, IF Deg THEN <<>> ELSE Want>>))
          /\ (l = 2 => PrintT(<<"DONE", tid>>))
=============================================================================
