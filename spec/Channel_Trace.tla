--------------------------- MODULE Channel_Trace ---------------------------
(* code -> spec for C19 C20 C22 C25.  One trace = one schedule of real threads on  *)
(* two real paramiko Channels joined by harness-mediated message passing           *)
(* (harness/drivers/channel.py).  The log is replayed on the OBSERVATION part of    *)
(* Channel.tla (Emit, Finish, the wires, consumed, closeSeen, linked) and the        *)
(* design spec's own invariants are evaluated after every event; the channel         *)
(* attributes (outwin, sofar, buffers, flags) are taken from the snapshot the        *)
(* driver records when the schedule has ended, so Conservation and NoStarvation are  *)
(* judged at rest.  Total: the step for line l is always taken; bad' = names of the  *)
(* clauses (P_<invariant of Channel.tla> / C_<conformance>) that fail after it.      *)
EXTENDS Channel, Json, IOUtils, TLCExt
CONSTANT Clauses          \* names of the invariants of Channel.tla this check decides
Batch == JsonDeserialize(IOEnv.TRACE_FILE)
VARIABLES tid, l, bad,
          since      \* per thread: virtual time (ms) of the last progress of its call (its start, its last data hand-over)
tvars == <<tid, l, bad, since, vars>>
R == Batch[tid]
N == Len(R.events)
E == R.events[l]
F == R.final

Holds(c) == CASE c = "WindowRespected" -> WindowRespected [] c = "PacketBound" -> PacketBound
              [] c = "NoOverGrant" -> NoOverGrant [] c = "EveryByteCredited" -> EveryByteCredited
              [] c = "Conservation" -> Conservation [] c = "NoStarvation" -> NoStarvation
              [] c = "EofOnce" -> EofOnce [] c = "CloseOnce" -> CloseOnce [] c = "NoDataAfterCtl" -> NoDataAfterCtl
              [] c = "CloseAnswered" -> CloseAnswered [] c = "ReleasedInv" -> ReleasedInv
              [] c = "NoSendAfterRelease" -> NoSendAfterRelease [] c = "ReturnedMeansAll" -> ReturnedMeansAll
              [] c = "RaiseIfShut" -> RaiseIfShut [] c = "SendallOutcome" -> SendallOutcome
              [] c = "SendallNoSpin" -> SendallNoSpin [] c = "NoHangInWindowWait" -> NoHangInWindowWait
              [] c = "TimedSendEndsInTime" -> TRUE         \* judged at the "wait" events, see LateWait
AtRestOnly == {"Conservation", "NoStarvation", "NoHangInWindowWait"}
Failed(cs) == {"P_" \o c : c \in {x \in cs : ~Holds(x)}}

SpecOp(o) == IF o = "send_ext" THEN "send_err" ELSE IF o = "sendall_ext" THEN "sendall_err" ELSE IF o = "recv_loop" THEN "recv"
             ELSE IF o = "recv_err_loop" THEN "recv_err" ELSE o
Known(t) == t \in Threads

\* "raise if it times out": a timed send never starts a wait on the window condition whose deadline lies beyond
\* (last progress of the call) + (the channel timeout) - however often it was woken in between
\* (since[t] = the deadline of the FIRST wait the call started after its last progress, -1 = none yet: the budget runs from
\*  the moment the call starts to wait, not from the moment the driver logged the call - the scheduler may let other threads
\*  and the virtual clock run in between.  A later wait of the same stall must not reach beyond that first deadline.)
LateWait == E.ev = "wait" /\ E.dl >= 0 /\ E.th \in Threads /\ since[E.th] >= 0 /\ E.dl > since[E.th]

TInit ==
  /\ tid \in 1..Len(Batch) /\ l = 1 /\ bad = {} /\ since = [t \in Threads |-> -1]
  /\ win = [X \in Sides |-> R.par.win[X]] /\ thresh = [X \in Sides |-> R.par.thresh[X]]
  /\ maxpkt = [X \in Sides |-> R.par.maxpkt[X]] /\ peermax = [X \in Sides |-> R.par.peermax[X]]
  /\ tmo = [X \in Sides |-> R.par.tmo[X]]
  /\ InitRest

Call ==
  LET t == E.th  X == E.side IN
  /\ pc' = [pc EXCEPT ![t] = "busy"] /\ op' = [op EXCEPT ![t] = SpecOp(E.op)]
  /\ left' = [left EXCEPT ![t] = E.n]
  /\ ctx' = [ctx EXCEPT ![t] = [shut |-> ShutOnWire(X), rel |-> Released(X), code |-> 1]]
  /\ UNCHANGED <<pend, held, calls, last, spins, chan, tr, robs>> /\ NoEmit

Emitted ==
  LET t == E.th  X == E.side  m == Msg(E.t, E.n, E.code) IN
  /\ Emit(X, <<m>>, IF Known(t) THEN ctx[t].rel ELSE FALSE)
  /\ left' = IF Known(t) /\ m.t \in DataT THEN [left EXCEPT ![t] = IF @ >= m.n THEN @ - m.n ELSE 0] ELSE left
  /\ UNCHANGED <<pc, op, pend, held, calls, ctx, last, spins, chan, tr, robs>>

Read ==
  /\ consumed' = [consumed EXCEPT ![E.side] = @ + E.n]
  /\ UNCHANGED <<thr, chan, tr, leaked, closeSeen>> /\ NoEmit

Ret ==
  LET t == E.th IN
  /\ Finish(t, E.out, left[t])
  /\ UNCHANGED <<op, left, pend, held, calls, ctx, spins, chan, tr, robs>> /\ NoEmit

Dispatch ==       \* the transport thread of E.side takes the head of the peer's wire
  LET X == E.side  Y == Peer(X) IN
  /\ wire' = [wire EXCEPT ![Y] = IF @ = <<>> THEN @ ELSE Tail(@)]
  /\ tpc' = [tpc EXCEPT ![X] = IF E.t = "CLOSE" /\ ~E.dead THEN "close" ELSE "busy"]
  \* extended data of a type the library discards is disposed of on the application's behalf (cf. Deliver, FixCredit)
  /\ consumed' = [consumed EXCEPT ![X] = IF E.t = "EXT" /\ E.code # 1 /\ ~E.dead THEN @ + E.n ELSE @]
  /\ UNCHANGED <<thr, chan, tpend, eobs, leaked, closeSeen>>

Done ==
  LET X == E.side IN
  /\ linked' = [linked EXCEPT ![X] = E.linked]
  /\ closeSeen' = [closeSeen EXCEPT ![X] = @ \/ tpc[X] = "close"]
  /\ tpc' = [tpc EXCEPT ![X] = "idle"]
  /\ UNCHANGED <<outwin, eofSent, eofRecv, closed, pclosed, alive, sofar, buf, tmo, thr, tpend, consumed, leaked>> /\ NoEmit

LostEv ==
  /\ alive' = [alive EXCEPT ![E.side] = FALSE] /\ tpc' = [tpc EXCEPT ![E.side] = "busy"]
  /\ UNCHANGED <<outwin, eofSent, eofRecv, closed, pclosed, linked, sofar, buf, tmo, thr, tpend, robs>> /\ NoEmit

FifoOk == LET Y == Peer(E.side) IN
  wire[Y] # <<>> /\ Head(wire[Y]).t = E.t /\ Head(wire[Y]).n = E.n /\ Head(wire[Y]).code = E.code

Event ==
  /\ l <= N /\ l' = l + 1 /\ tid' = tid /\ UNCHANGED <<par, hb>>
  /\ CASE E.ev = "call" -> Call [] E.ev = "emit" -> Emitted [] E.ev = "read" -> Read [] E.ev = "ret" -> Ret
       [] E.ev = "deliver" -> Dispatch [] E.ev = "done" -> Done [] E.ev = "lost" -> LostEv
       [] E.ev = "wait" -> UNCHANGED <<thr, chan, tr, robs>> /\ NoEmit
  /\ since' = IF E.th \in Threads /\ (E.ev = "call" \/ (E.ev = "emit" /\ E.t \in DataT))
                 THEN [since EXCEPT ![E.th] = -1]
                 ELSE IF E.ev = "wait" /\ E.th \in Threads /\ E.dl >= 0 /\ since[E.th] < 0
                 THEN [since EXCEPT ![E.th] = E.dl] ELSE since
  /\ bad' = Failed(Clauses \ AtRestOnly)'
            \cup (IF E.ev = "deliver" /\ ~FifoOk THEN {"C_fifo"} ELSE {})
            \cup (IF E.ev = "emit" /\ E.dropped = alive[E.side] THEN {"C_dropped"} ELSE {})
            \cup (IF "TimedSendEndsInTime" \in Clauses /\ LateWait THEN {"P_TimedSendEndsInTime"} ELSE {})

WaitingAt(t) == IF \E i \in 1..Len(F.waiting) : F.waiting[i].th = t
                THEN (CHOOSE i \in 1..Len(F.waiting) : F.waiting[i].th = t) ELSE 0
Final ==          \* the schedule has ended: take the channel attributes from the snapshot and judge the state at rest
  /\ l = N + 1 /\ l' = l + 1 /\ tid' = tid /\ UNCHANGED <<par, hb, since>>
  /\ outwin' = [X \in Sides |-> F.sides[X].outwin] /\ sofar' = [X \in Sides |-> F.sides[X].sofar]
  /\ buf' = [X \in Sides |-> [out |-> F.sides[X].out, err |-> F.sides[X].err]]
  /\ eofSent' = [X \in Sides |-> F.sides[X].eofSent] /\ eofRecv' = [X \in Sides |-> F.sides[X].eofRecv]
  /\ closed' = [X \in Sides |-> F.sides[X].closed] /\ linked' = [X \in Sides |-> F.sides[X].linked]
  /\ pclosed' = [X \in Sides |-> F.sides[X].closed \/ F.sides[X].eofRecv]
  /\ alive' = [X \in Sides |-> F.sides[X].alive]
  /\ pc' = [t \in Threads |-> IF WaitingAt(t) # 0 THEN F.waiting[WaitingAt(t)].at ELSE pc[t]]
  /\ spins' = [t \in Threads |-> IF \E i \in 1..Len(F.spinning) : F.spinning[i] = t THEN SpinCap ELSE spins[t]]
  /\ UNCHANGED <<tmo, op, left, pend, held, calls, ctx, last, tr, robs>> /\ NoEmit
  /\ bad' = Failed(IF F.budget THEN Clauses \ AtRestOnly ELSE Clauses)'

TNext == Event \/ Final
TSpec == TInit /\ [][TNext]_tvars
Report == /\ (bad # {} => PrintT(<<"VERDICT", tid, l - 1, bad>>))
          /\ (l = N + 2 => PrintT(<<"DONE", tid>>))
=============================================================================
