----------------------------- MODULE KexRanges -----------------------------
(* C08.  What a key-exchange engine does with the peer's public value / group.     *)
(*   kex_group1.py (and group14/16) _parse_kexdh_init / _parse_kexdh_reply           *)
(*   kex_gex.py     _parse_kexdh_gex_group / _gex_init / _gex_reply                  *)
(*   kex_ecdh_nist.py, kex_curve25519.py  _parse_kexecdh_init / _parse_kexecdh_reply *)
(*                                                                                 *)
(* The victim (client or server) receives one value from the peer:                  *)
(*   kind "pub"   : e (to the server) / f (to the client) for the DH families, a     *)
(*                  point Q for ecdh, a u-coordinate for x25519                      *)
(*   kind "group" : the group-exchange modulus (client only)                         *)
(* and then   Receive -> Check -> (Fail | Derive -> SendNewkeys | Continue).          *)
(* Integers live in a toy group (model prime P); the driver embeds them order-       *)
(* preservingly into the real group (multiples of p and the offsets 0,1,2,p-2,p-1     *)
(* exactly).  Points and u-coordinates are classes.  Mut seeds design errors.        *)
EXTENDS Integers, FiniteSets, TLC

CONSTANTS P,          \* model prime (odd, > 6)
          IntChoice,  \* "boundary" | "all": the integers explored for e / f
          Bits,       \* the modulus sizes explored for group exchange
          Families,   \* subset of {"dh", "gex", "ecdh", "x25519"}
          Mut         \* "none" | "upper_inclusive" | "lower_zero" | "no_point_check" | "no_zero_check" | "gex_window_wide"

Victims == {"client", "server"}
Boundary == {-1, 0, 1, 2, 10, P - 2, P - 1, P, P + 1, P + 9, 2 * P}
IntVals  == IF IntChoice = "all" THEN -2..(2 * P + 2) ELSE Boundary
PointClasses  == {"valid", "off_curve", "short", "long", "empty", "infinity", "bad_prefix", "other_curve"}
SmallOrder    == {"zero", "one", "order8_a", "order8_b", "p_minus_1", "p", "p_plus_1", "zero_highbit", "one_highbit"}
Malformed25519 == {"short", "long", "empty"}
U25519Classes == {"valid"} \cup SmallOrder \cup Malformed25519
MinBits == 1024
MaxBits == 8192

(* ---- the statement's validity predicates ----------------------------------- *)
InRange(v)       == 1 <= v /\ v <= P - 1                \* a DH value in [1, p-1]
OnCurve(c)       == c = "valid"                         \* a well-formed point of the negotiated curve
NonZeroResult(c) == c \notin SmallOrder /\ c \notin Malformed25519
GroupOK(b)       == MinBits <= b /\ b <= MaxBits
Valid(f, k, v) == IF k = "group" THEN GroupOK(v)
                  ELSE CASE f \in {"dh", "gex"} -> InRange(v)
                         [] f = "ecdh"          -> OnCurve(v)
                         [] f = "x25519"        -> NonZeroResult(v)

(* ---- what the code checks (with seeded errors) -------------------------------- *)
Accepts(f, k, v) ==
    IF k = "group" THEN (IF Mut = "gex_window_wide" THEN 512 <= v /\ v <= 16384 ELSE GroupOK(v))
    ELSE CASE f \in {"dh", "gex"} -> /\ (IF Mut = "lower_zero" THEN 0 <= v ELSE 1 <= v)
                                     /\ (IF Mut = "upper_inclusive" THEN v <= P ELSE v <= P - 1)
           [] f = "ecdh"          -> (Mut = "no_point_check" /\ v \notin {"short", "long", "empty"}) \/ OnCurve(v)
           [] f = "x25519"        -> (Mut = "no_zero_check" /\ v \in SmallOrder) \/ NonZeroResult(v)

VARIABLES fam, victim, kind, val,    \* the case
          phase     \* "waiting" | "received" | "checked" | "derived" | "newkeys_sent" | "continued" | "failed"
vars == <<fam, victim, kind, val, phase>>

Cases == {c \in [fam : Families, victim : Victims, kind : {"pub", "group"}] :
             c.kind = "group" => (c.fam = "gex" /\ c.victim = "client")}
ValsOf(c) == IF c.kind = "group" THEN Bits
             ELSE CASE c.fam \in {"dh", "gex"} -> IntVals [] c.fam = "ecdh" -> PointClasses [] c.fam = "x25519" -> U25519Classes

Init == \E c \in Cases : \E v \in ValsOf(c) :
            fam = c.fam /\ victim = c.victim /\ kind = c.kind /\ val = v /\ phase = "waiting"

Receive == phase = "waiting" /\ phase' = "received" /\ UNCHANGED <<fam, victim, kind, val>>
\* the range / size / point test, before anything is computed from the value
Check   == /\ phase = "received"
           /\ phase' = IF Accepts(fam, kind, val) THEN "checked" ELSE "failed"
           /\ UNCHANGED <<fam, victim, kind, val>>
\* K = f^x mod p etc., H, Transport._set_K_H
Derive  == phase = "checked" /\ kind = "pub" /\ phase' = "derived" /\ UNCHANGED <<fam, victim, kind, val>>
\* the server signs and activates at once; the client first verifies the host key signature (C06), which may fail
SendNewkeys == /\ phase = "derived"
               /\ phase' \in (IF victim = "server" THEN {"newkeys_sent"} ELSE {"newkeys_sent", "failed"})
               /\ UNCHANGED <<fam, victim, kind, val>>
\* group accepted: the client picks x and sends e
Continue == phase = "checked" /\ kind = "group" /\ phase' = "continued" /\ UNCHANGED <<fam, victim, kind, val>>

Next == Receive \/ Check \/ Derive \/ SendNewkeys \/ Continue
Spec == Init /\ [][Next]_vars

(* ---- the property (predicates shared with KexRanges_Trace) -------------------- *)
\* an invalid value is rejected: no key is derived from it, no NEWKEYS follows, the exchange fails
NoDeriveP(valid, derived)      == ~valid => ~derived
NoNewkeysP(valid, newkeys)     == ~valid => ~newkeys
FailsP(valid, stillActive)     == ~valid => ~stillActive
NoContinueP(valid, continued)  == ~valid => ~continued

IsValid == Valid(fam, kind, val)
InvalidRejected ==
    /\ NoDeriveP(IsValid, phase \in {"derived", "newkeys_sent"})
    /\ NoNewkeysP(IsValid, phase = "newkeys_sent")
    /\ NoContinueP(IsValid, phase \in {"checked", "continued"})
\* every value class the statement calls valid passes the check (not demanded by the statement; conformance)
ValidPasses == phase = "failed" /\ IsValid => victim = "client" /\ kind = "pub"

Emit == phase = "received" => PrintT(<<"CASE", fam, victim, kind, val, IsValid>>)
=============================================================================
