---------------------------- MODULE Canonicalize ----------------------------
(* C34.  Default SFTP path canonicalisation (SFTPServerInterface.canonicalize,   *)
(* paramiko/sftp_si.py).  A client path is a sequence of components separated by *)
(* "/"; "" (repeated / leading / trailing separator) and "." are skipped, ".."   *)
(* pops, a name pushes.  The state machine walks the path one component at a      *)
(* time; `stack` is the directory (relative to the served root) the walk is in.   *)
EXTENDS Naturals, Sequences, TLC

CONSTANTS Names,     \* ordinary file names (model values / strings other than "", ".", "..")
          MaxLen     \* longest path (in components) explored by the model checker

Comps == Names \cup {"", ".", ".."}

VARIABLES path,      \* components consumed so far
          stack,     \* canonical location reached (Seq of names)
          escaped    \* TRUE if a ".." was ever applied at the root and moved ABOVE it
vars == <<path, stack, escaped>>

Step(st, c) == IF c \in {"", "."} THEN st
               ELSE IF c = ".." THEN (IF st = <<>> THEN <<>> ELSE SubSeq(st, 1, Len(st) - 1))
               ELSE Append(st, c)

RECURSIVE Fold(_, _)
Fold(st, p) == IF p = <<>> THEN st ELSE Fold(Step(st, Head(p)), Tail(p))
Canon(p) == Fold(<<>>, p)

Init == path = <<>> /\ stack = <<>> /\ escaped = FALSE
Feed(c) == /\ Len(path) < MaxLen
           /\ path' = Append(path, c)
           /\ stack' = Step(stack, c)
           /\ escaped' = escaped          \* Step never goes above the root: ".." at the root stays there
Next == \E c \in Comps : Feed(c)
Spec == Init /\ [][Next]_vars

(* ---- properties ---- *)
NoDots(st)   == \A i \in 1..Len(st) : st[i] \notin {"", ".", ".."}
InsideRoot   == ~escaped /\ NoDots(stack)                 \* the statement of C34 on the model
FoldAgrees   == stack = Canon(path)                       \* incremental walk = whole-path fold
\* emitted for spec -> code replay: every (path, canonical form) pair of the bounded space
Emit         == PrintT(<<"CASE", path, stack>>)
=============================================================================
