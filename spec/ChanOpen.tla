------------------------------ MODULE ChanOpen ------------------------------
(* X05 (beyond the listed properties).  Admission of channels opened by the peer, as       *)
(* Transport._parse_channel_open decides it (paramiko/transport.py).  One step per          *)
(* SSH_MSG_CHANNEL_OPEN received; between two of them the application may install or        *)
(* remove the handler of a forwarded kind (Channel.request_x11 -> _set_x11_handler,         *)
(* request_forward_agent -> _set_forward_agent_handler, request_port_forward /              *)
(* cancel_port_forward -> _tcp_handler).  The environment chooses the kind of channel and,  *)
(* in server mode, what the application's ServerInterface answers.                           *)
(*   - a kind whose handler is installed is admitted in either mode and handed to that       *)
(*     handler ("own"), or to the accept() queue when x11 forwarding was asked for without   *)
(*     a handler ("default");                                                                *)
(*   - otherwise a client refuses (reason 1, administratively prohibited);                    *)
(*   - otherwise a server asks the application: 0 admits (accept() queue), any other value    *)
(*     is the reason sent back.                                                              *)
(* The local channel number is taken from the counter before the application is asked, so a  *)
(* refusal by the application uses one up; a refusal by a client does not.                   *)
EXTENDS Naturals, Sequences, FiniteSets, TLC
CONSTANTS Modes,        \* subset of {"client", "server"}
          MaxOpens,     \* CHANNEL_OPEN messages per behaviour
          MaxToggles,   \* handler installations / removals per behaviour
          Mut,          \* "none" or a seeded error (see below)
          Crash         \* TRUE = as coded: a server whose application admits a forwarded kind it has no handler for
                        \* confirms the channel and then fails in the hand-over (unbound origin_addr / None handler):
                        \* the channel reaches nobody and the transport thread ends.  FALSE = the repaired design
                        \* (such a channel goes to the accept() queue like any other the application admits)
Kinds == {"session", "direct-tcpip", "x11", "forwarded-tcpip", "auth-agent@openssh.com", "other"}
Handled == {"x11", "forwarded-tcpip", "auth-agent@openssh.com"}
Hows == {"own", "default"}
NoId == 99999
VARIABLES mode, hset, counter, registry, queue, given, script, answers
vars == <<mode, hset, counter, registry, queue, given, script, answers>>

Opens(s) == Len(SelectSeq(s, LAMBDA r : r.op = "open"))
Toggles(s) == Len(s) - Opens(s)
Init == /\ mode \in Modes /\ hset = [h \in Handled |-> "none"] /\ counter = 0 /\ registry = {}
        /\ queue = <<>> /\ given = <<>> /\ script = <<>> /\ answers = <<>>

Set(h, how) == /\ Toggles(script) < MaxToggles /\ Opens(script) < MaxOpens
               /\ (how = "default" => h = "x11")          \* only _set_x11_handler(None) installs a queueing handler
               /\ hset[h] # how
               /\ hset' = [hset EXCEPT ![h] = how]
               /\ script' = Append(script, [op |-> "set", kind |-> h, app |-> 0, how |-> how])
               /\ UNCHANGED <<mode, counter, registry, queue, given, answers>>
Clear(h) == /\ Toggles(script) < MaxToggles /\ Opens(script) < MaxOpens
            /\ h = "forwarded-tcpip"                      \* cancel_port_forward; the other two are never removed by the library
            /\ hset[h] # "none"
            /\ hset' = IF Mut = "stale_handler" THEN hset ELSE [hset EXCEPT ![h] = "none"]
            /\ script' = Append(script, [op |-> "clear", kind |-> h, app |-> 0, how |-> "none"])
            /\ UNCHANGED <<mode, counter, registry, queue, given, answers>>

Open(kind, app) ==
    LET peer == 40 + Opens(script)
        has == kind \in Handled /\ hset[kind] # "none"
        admitted == \/ has
                    \/ mode = "server" /\ app = 0
                    \/ Mut = "client_queues_session" /\ mode = "client" /\ kind = "session"
        takes == has \/ mode = "server" \/ admitted
        lid == counter
        dest == IF has /\ hset[kind] = "own" THEN kind
                ELSE IF Crash /\ ~has /\ kind \in Handled THEN "nobody" ELSE "queue"
    IN /\ Opens(script) < MaxOpens
       /\ (has \/ mode = "client" => app = 0)             \* the application is only asked by a server without handler
       /\ script' = Append(script, [op |-> "open", kind |-> kind, app |-> app, how |-> "none"])
       /\ counter' = IF takes THEN counter + 1 ELSE counter
       /\ answers' = Append(answers,
              IF admitted THEN [ok |-> TRUE, peer |-> peer, lid |-> lid, reason |-> 0, dest |-> dest]
              ELSE [ok |-> FALSE, peer |-> peer, lid |-> NoId, dest |-> "nobody",
                    reason |-> IF mode = "client" \/ Mut = "reason_lost" THEN 1 ELSE app])
       /\ registry' = IF admitted \/ (Mut = "reject_registers" /\ mode = "server") THEN registry \cup {lid} ELSE registry
       /\ queue' = IF admitted /\ dest = "queue" THEN Append(queue, lid) ELSE queue
       /\ given' = IF admitted /\ dest \notin {"queue", "nobody"} THEN Append(given, [h |-> kind, lid |-> lid]) ELSE given
       /\ UNCHANGED <<mode, hset>>

Next == \/ \E h \in Handled, how \in Hows : Set(h, how)
        \/ \E h \in Handled : Clear(h)
        \/ \E k \in Kinds, a \in 0..4 : Open(k, a)
Spec == Init /\ [][Next]_vars

(* ---- what an application relies on, stated over the history (script, answers) alone ---- *)
OpenIdx == {i \in 1..Len(script) : script[i].op = "open"}
\* the k-th open's position in the script
Pos(k) == CHOOSE i \in OpenIdx : Cardinality({j \in OpenIdx : j <= i}) = k
\* the handler of h in force just before script position i, from the application's own calls
HAt(i, h) == LET js == {j \in 1..(i - 1) : script[j].op \in {"set", "clear"} /\ script[j].kind = h}
             IN IF js = {} THEN "none"
                ELSE LET j == CHOOSE x \in js : \A y \in js : y <= x
                     IN IF script[j].op = "clear" THEN "none" ELSE script[j].how
HasAt(k) == LET i == Pos(k) IN script[i].kind \in Handled /\ HAt(i, script[i].kind) # "none"

OneAnswerEach == /\ Len(answers) = Cardinality(OpenIdx)
                 /\ \A k \in 1..Len(answers) : answers[k].peer = 40 + (k - 1)
ClientAdmitsOnlyWhatItAskedFor ==
    mode = "client" => \A k \in 1..Len(answers) :
        (answers[k].ok <=> HasAt(k)) /\ (~answers[k].ok => answers[k].reason = 1)
ServerFollowsApplication ==
    mode = "server" => \A k \in 1..Len(answers) :
        IF HasAt(k) THEN answers[k].ok
        ELSE (answers[k].ok <=> (script[Pos(k)].app = 0)) /\ (~answers[k].ok => answers[k].reason = script[Pos(k)].app)
Admitted == {k \in 1..Len(answers) : answers[k].ok}
RegistryExact == /\ registry = {answers[k].lid : k \in Admitted}
                 /\ Cardinality(registry) = Cardinality(Admitted)          \* fresh number for every admitted channel
DeliveredOnce ==
    /\ \A k \in Admitted : LET i == Pos(k) IN
         answers[k].dest = IF HasAt(k) /\ HAt(i, script[i].kind) = "own" THEN script[i].kind ELSE "queue"
    /\ queue = [n \in 1..Len(queue) |-> queue[n]]
    /\ LET qs == SelectSeq(answers, LAMBDA a : a.ok /\ a.dest = "queue")
           gs == SelectSeq(answers, LAMBDA a : a.ok /\ a.dest \notin {"queue", "nobody"})
       IN /\ Len(qs) = Len(queue) /\ \A n \in 1..Len(qs) : qs[n].lid = queue[n]
          /\ Len(gs) = Len(given) /\ \A n \in 1..Len(gs) : gs[n].lid = given[n].lid /\ gs[n].dest = given[n].h

Emit == Opens(script) = MaxOpens => PrintT(<<"CASE", mode, script, answers>>)
=============================================================================
