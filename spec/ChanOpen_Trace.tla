--------------------------- MODULE ChanOpen_Trace ---------------------------
(* code -> spec for X05.  One trace = one real Transport (client or server role, no socket) *)
(* that is fed the script of a behaviour: handler installations / removals through the      *)
(* library's own entry points and SSH_MSG_CHANNEL_OPEN messages through                      *)
(* Transport._parse_channel_open.  For every open the driver records how many answers went   *)
(* out, the answer itself, where the new channel ended up (a handler, the accept() queue,    *)
(* nobody) and whether it is in the channel table.  The design spec is replayed on the       *)
(* script and its answer is compared with the recorded one, step by step.                    *)
EXTENDS ChanOpen, Json, IOUtils, TLCExt
Batch == JsonDeserialize(IOEnv.TRACE_FILE)
VARIABLES tid, l, bad
tvars == <<tid, l, bad, vars>>
T == Batch[tid]
TInit == /\ tid \in 1..Len(Batch) /\ l = 1 /\ bad = {}
         /\ Init /\ mode = T.mode
Judge(m, o) ==
    IF o.crashed THEN {"P_transport_thread_dies_on_admitted_open"}
    ELSE IF o.n # 1 THEN {"P_open_not_answered_exactly_once"}
    ELSE (IF o.ok /\ ~m.ok THEN {"P_admitted_against_the_rule"} ELSE {})
    \cup (IF ~o.ok /\ m.ok THEN {"P_refused_against_the_rule"} ELSE {})
    \cup (IF o.peer # m.peer THEN {"P_answer_names_another_channel"} ELSE {})
    \cup (IF ~o.ok /\ ~m.ok /\ o.reason # m.reason THEN {"P_wrong_refusal_reason"} ELSE {})
    \cup (IF o.ok /\ m.ok /\ o.dest # m.dest THEN {"P_channel_not_delivered_as_required"} ELSE {})
    \cup (IF o.ok # o.registered THEN {"P_channel_table_differs_from_answers"} ELSE {})
    \cup (IF ~o.ok /\ o.dest # "nobody" THEN {"P_refused_channel_delivered"} ELSE {})
    \cup (IF o.ok /\ m.ok /\ o.lid # m.lid THEN {"C_local_number_differs"} ELSE {})
TStep == /\ l <= Len(T.script) /\ l' = l + 1 /\ UNCHANGED tid
         /\ LET r == T.script[l] IN
              CASE r.op = "set" -> Set(r.kind, r.how) /\ bad' = bad
                [] r.op = "clear" -> Clear(r.kind) /\ bad' = bad
                [] OTHER -> /\ Open(r.kind, r.app)
                            /\ bad' = bad \cup Judge(answers'[Len(answers')], T.obs[Len(answers')])
TFinal == /\ l = Len(T.script) + 1 /\ l' = l + 1 /\ UNCHANGED <<tid, vars>>
          /\ IF \E k \in 1..Len(T.obs) : T.obs[k].crashed THEN bad' = bad ELSE
             LET oks == {k \in 1..Len(T.obs) : T.obs[k].n = 1 /\ T.obs[k].ok} IN
             bad' = bad \cup (IF Cardinality({T.obs[k].lid : k \in oks}) # Cardinality(oks) THEN {"P_local_number_reused"} ELSE {})
                        \cup (IF T.regsize # Cardinality(oks) THEN {"P_channel_table_differs_from_answers"} ELSE {})
                        \cup (IF Len(T.obs) # Len(answers) THEN {"C_script_not_replayed"} ELSE {})
TSpec == TInit /\ [][TStep \/ TFinal]_tvars
Report == l = Len(T.script) + 2 => /\ (bad # {} => PrintT(<<"VERDICT", tid, bad>>))
                                   /\ PrintT(<<"DONE", tid>>)
=============================================================================
