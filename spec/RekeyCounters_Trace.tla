-------------------------- MODULE RekeyCounters_Trace --------------------------
(* code -> spec for C10: what the Packetizer of ONE endpoint of a real two-       *)
(* transport session did, recorded by a Packetizer subclass (packetizer_class):   *)
(*   [rp, rb, op, ob : the REKEY_* attributes set on that Packetizer,             *)
(*    coop : the peer answers KEXINIT, slack : packets of tolerance where the log *)
(*    order of concurrent threads is not the exact order (0 when only the         *)
(*    transport thread of this endpoint was active), slackb : the same in bytes,  *)
(*    ev : events [a, t, len, nr, ok]]                                            *)
(*   a = "Send" (t = message type, len = bytes written), "Recv" (read_message     *)
(*       returned), "RecvFail" (read_message raised after reading len bytes),     *)
(*       "NeedRekey" (NeedRekeyException), "SetOut" / "SetIn" (set_*_cipher),     *)
(*       "Quiet" (the driver found the session quiescent and goes on),            *)
(*       "End" (quiescent: nr = need_rekey(), ok = transport still active,        *)
(*       t = 1 iff the data that crossed the session arrived intact and complete) *)
(* The events drive the Packetizer part of RekeyCounters (Count, CountRecv,       *)
(* Overflows, SetOut, SetIn) and the in_kex bookkeeping of the run loop.          *)
EXTENDS RekeyCounters, Json, IOUtils, TLCExt
Batch == JsonDeserialize(IOEnv.TRACE_FILE)
VARIABLES tid, l, bad, nkex
tvars == <<tid, l, bad, nkex, vars>>
R == Batch[tid]
E == R.ev[l]
S(c, name) == IF c THEN {name} ELSE {}
KEXINIT == 20

TInit == /\ tid \in 1..Len(Batch) /\ l = 1 /\ bad = {} /\ nkex = 0
         /\ lim = [rp |-> R.rp, rb |-> R.rb, op |-> R.op, ob |-> R.ob] /\ coop = R.coop /\ InitRest

Keep == UNCHANGED <<lim, coop, alive, tloc, todo, wire, pinit, pnew>>

SendStep ==
    /\ Count(E.len) /\ UNCHANGED <<rp, rb, initc>> /\ Keep
    /\ IF E.t = KEXINIT
         THEN /\ inkex' = TRUE /\ cts' = FALSE /\ haveinit' = TRUE /\ kexdone' = kexdone
              /\ nkex' = nkex + 1
              \* we start an exchange (the peer's KEXINIT has not been read) although no counter asked for one
              /\ bad' = S(kexdone /\ ~inkex /\ ~need, "P_counters_restart")
         ELSE /\ UNCHANGED <<inkex, cts, haveinit, kexdone, nkex>>
              /\ bad' = {}

RecvStep ==
    /\ CountRecv(E.len) /\ UNCHANGED <<sp, sb, initc>> /\ Keep
    /\ nkex' = nkex
    /\ IF E.t = KEXINIT
         THEN inkex' = TRUE /\ cts' = FALSE /\ UNCHANGED <<haveinit, kexdone>>
         ELSE UNCHANGED <<inkex, cts, haveinit, kexdone>>
    \* read_message handed up a packet although the allowance was exhausted by it (or before it)
    /\ bad' = S(need /\ (op + 1 >= OP + R.slack \/ ob + E.len >= OB + R.slackb), "P_overflow_ignored")
              \cup S(Overflows(E.len) /\ R.slack = 0, "C_overflow_exact")

FailStep ==
    /\ UNCHANGED <<sp, sb, initc, inkex, cts, haveinit, kexdone, lim, coop, tloc, todo, wire, pinit, pnew>>
    /\ alive' = FALSE /\ nkex' = nkex
    /\ IF E.len = 0
         THEN \* nothing was read: the peer closed the connection (EOFError)
              UNCHANGED <<rp, rb, op, ob, gp, gb, need>> /\ bad' = {}
         ELSE /\ CountRecv(E.len)
              /\ bad' = S(~(need /\ (op + 1 + R.slack >= OP \/ ob + E.len + R.slackb >= OB)), "C_unexpected_failure")

NeedRekeyStep ==
    /\ UNCHANGED <<vars, nkex>>
    /\ bad' = S(~need, "C_needrekey_without_flag")

SetOutStep ==
    /\ SetOut /\ UNCHANGED <<rp, rb, op, ob, gp, gb>> /\ Keep
    /\ inkex' = IF need' THEN inkex ELSE FALSE
    /\ UNCHANGED <<cts, haveinit, kexdone, nkex>>
    /\ bad' = {}

SetInStep ==
    /\ SetIn /\ UNCHANGED <<sp, sb>> /\ Keep
    /\ inkex' = IF need' THEN inkex ELSE FALSE
    /\ cts' = TRUE /\ haveinit' = FALSE /\ kexdone' = TRUE /\ nkex' = nkex
    /\ bad' = {}

\* the driver saw a quiescent point in mid-session: nothing in flight, nobody sending
QuietStep ==
    /\ UNCHANGED <<vars, nkex>>
    /\ bad' = S(alive /\ need /\ ~inkex, "P_rekey_not_started")
              \cup S(alive /\ R.coop /\ inkex, "P_rekey_not_finished")

EndStep ==
    /\ UNCHANGED <<vars, nkex>>
    /\ bad' = \* a counter reached its threshold but no key exchange was started
              S(alive /\ E.ok /\ need /\ ~inkex, "P_rekey_not_started")
              \* ... or one was started and (with a peer that answers) never finished
              \cup S(alive /\ E.ok /\ R.coop /\ inkex, "P_rekey_not_finished")
              \* traffic does not continue intact
              \cup S(R.coop /\ (~E.ok \/ ~alive), "P_dropped")
              \cup S(R.coop /\ E.t # 1, "P_traffic_not_intact")
              \* the peer went past the allowance and we are still connected
              \cup S(E.ok /\ need /\ (op >= OP + R.slack \/ ob >= OB + R.slackb), "P_refuser_not_dropped")
              \cup S(E.ok # alive, "C_alive")
              \cup S(E.nr # need, "C_need_flag")

TNext == /\ l <= Len(R.ev) /\ l' = l + 1 /\ tid' = tid
         /\ CASE E.a = "Send"      -> SendStep
              [] E.a = "Recv"      -> RecvStep
              [] E.a = "RecvFail"  -> FailStep
              [] E.a = "NeedRekey" -> NeedRekeyStep
              [] E.a = "SetOut"    -> SetOutStep
              [] E.a = "SetIn"     -> SetInStep
              [] E.a = "Quiet"     -> QuietStep
              [] E.a = "End"       -> EndStep
TSpec == TInit /\ [][TNext]_tvars
Report == /\ (bad # {} => PrintT(<<"VERDICT", tid, l - 1, bad>>))
          /\ (l = Len(R.ev) + 1 => PrintT(<<"DONE", tid, nkex>>))
=============================================================================
