---------------------------- MODULE BinFile_Trace ----------------------------
(* code -> spec for C27.  A trace is one program run on one file object:           *)
(*   who      "local" (a real local file, buffering = 0: validates BinFile itself)  *)
(*            or "sftp" (SFTPClient.open against a real SFTPServer)                 *)
(*   mode, bufsize, initial (bytes of the file before open), events (the calls with  *)
(*   their uniformly typed results), final (bytes of the file after the last call)   *)
(* The step for line l is always taken (total verdict).  The first call whose value  *)
(* differs from BinFile's (SameValue) ends the comparison for that trace (the two    *)
(* files have diverged) and yields one finding signature                              *)
(*        <<clause, cause, operation class, mode class>>                              *)
(* computed from the spec's own state: the cause is the most specific hazardous       *)
(* context the failing call is made in (call on a closed file, negative seek target,  *)
(* truncate on a handle not open for writing, read/tell/truncate with an unflushed    *)
(* buffered write pending, write/truncate with read-ahead present, or - sticky - an   *)
(* earlier truncate / earlier such pending or read-ahead situation / for reads, an    *)
(* earlier write through an append+read handle) or "none".                            *)
(* DONE lines carry every hazardous context the program entered (a clean program      *)
(* enters none but "after_truncate" and "after_append_write", which are plain use).   *)
EXTENDS BinFile, Json, IOUtils, TLCExt
Batch == JsonDeserialize(IOEnv.TRACE_FILE)
VARIABLES tid, l, st, wpend, rahead, haz, seen, dead, bad
tvars == <<tid, l, st, wpend, rahead, haz, seen, dead, bad>>
T == Batch[tid]

HasLF(s)  == \E i \in 1..Len(s) : s[i] = LF
LastLF(s) == IF HasLF(s) THEN CHOOSE i \in 1..Len(s) : s[i] = LF /\ \A j \in (i + 1)..Len(s) : s[j] # LF ELSE 0
Buf == IF T.bufsize < 0 THEN 0 ELSE T.bufsize
\* bytes sitting in a write buffer of the documented kind after writing d (0 unbuffered; line: since the
\* last newline; size > 1: until the buffer has reached that size)
PendAfterWrite(d) == IF Buf = 0 THEN 0
                     ELSE IF Buf = 1 THEN (IF HasLF(d) THEN Len(d) - LastLF(d) ELSE wpend + Len(d))
                     ELSE (IF wpend + Len(d) >= Buf THEN 0 ELSE wpend + Len(d))

OpClass(op) == IF op \in {"read", "readline", "readlines"} THEN "read" ELSE op
MClass == IF T.mode = "r" THEN "ro" ELSE IF T.mode \in {"a", "a+"} THEN "a" ELSE "w"
SeekTarget(e) == CASE e.whence = 0 -> e.off [] e.whence = 1 -> st.pos + e.off [] OTHER -> Len(st.content) + e.off
\* the hazardous contexts call e is made in (contexts in which the pinned code is known or suspected to differ)
Readish(e) == e.op \in {"read", "readline", "readlines"}
HazSet(e) ==
     (IF st.closed /\ e.op # "close" THEN {"closed"} ELSE {})
  \cup (IF e.op = "seek" /\ ~st.closed /\ SeekTarget(e) < 0 THEN {"negative_seek"} ELSE {})
  \cup (IF e.op = "truncate" /\ ~st.mode.w THEN {"not_writable"} ELSE {})
  \cup (IF wpend > 0 /\ (Readish(e) \/ e.op \in {"tell", "truncate"}) THEN {"write_pending"} ELSE {})
  \cup (IF rahead /\ e.op \in {"write", "truncate"} THEN {"readahead"} ELSE {})
  \cup (IF Readish(e) THEN haz ELSE haz \ {"after_append_write"})     \* that one only concerns reads
  
\* the most specific one names the finding
Order == <<"closed", "negative_seek", "not_writable", "write_pending", "readahead", "after_write_pending", "after_readahead", "after_append_write", "after_truncate">>
First(S) == IF S = {} THEN "none" ELSE Order[CHOOSE i \in 1..Len(Order) : Order[i] \in S /\ \A j \in 1..(i - 1) : Order[j] \notin S]
Cause(e) == First(HazSet(e))
FinalCause == First(haz \ {"after_append_write"})
\* the open mode does not matter for calls that must simply be refused
MClassFor(cause) == IF cause \in {"closed", "negative_seek", "not_writable"} THEN "any" ELSE MClass

TInit == /\ tid \in 1..Len(Batch) /\ l = 1 /\ bad = {} /\ dead = FALSE
         /\ st = Open(Batch[tid].initial, Batch[tid].mode)
         /\ wpend = 0 /\ rahead = FALSE /\ haz = {} /\ seen = {}
TStep == /\ l <= Len(T.events)
         /\ LET e  == T.events[l]
                r  == Apply(st, e)
                ok == SameValue(e.op, r.ret, e.ret)
                fine == r.ret.k # "err"                       \* the reference performed the call
                readish == e.op \in {"read", "readline", "readlines"}
            IN /\ st' = r.st
               /\ bad' = IF dead \/ ok THEN {}
                         ELSE {<<IF (e.ret.k = "err") # (r.ret.k = "err") THEN "P_raises" ELSE "P_return_value",
                                 Cause(e), OpClass(e.op), MClassFor(Cause(e))>>}
               /\ dead' = (dead \/ ~ok)
               /\ seen' = seen \cup HazSet(e)
               /\ wpend' = IF ~fine THEN wpend
                           ELSE IF e.op = "write" THEN PendAfterWrite(e.data)
                           ELSE IF e.op \in {"flush", "seek", "close"} THEN 0 ELSE wpend
               /\ rahead' = IF ~fine THEN rahead
                            ELSE IF e.op \in {"readline", "readlines"} THEN TRUE
                            ELSE IF e.op = "read" THEN (e.n >= 0 /\ (Buf # 0 \/ rahead))
                            ELSE IF e.op = "seek" THEN FALSE ELSE rahead
               /\ haz' = IF ~fine THEN haz ELSE haz
                         \cup (IF e.op = "truncate" THEN {"after_truncate"} ELSE {})
                         \cup (IF e.op = "write" /\ st.mode.a /\ st.mode.r /\ e.data # <<>> THEN {"after_append_write"} ELSE {})
                         \cup (IF wpend > 0 /\ (readish \/ e.op \in {"tell", "truncate"}) THEN {"after_write_pending"} ELSE {})
                         \cup (IF rahead /\ e.op \in {"write", "truncate"} THEN {"after_readahead"} ELSE {})
         /\ l' = l + 1 /\ tid' = tid
TFinal == /\ l = Len(T.events) + 1
          /\ bad' = IF dead \/ T.final = st.content THEN {} ELSE {<<"P_final_content", FinalCause, "final", MClass>>}
          /\ l' = l + 1 /\ UNCHANGED <<tid, st, wpend, rahead, haz, seen, dead>>
TSpec == TInit /\ [][TStep \/ TFinal]_tvars
Report == /\ (bad # {} => PrintT(<<"VERDICT", tid, l - 1, bad>>))
          /\ (l = Len(T.events) + 2 => PrintT(<<"DONE", tid, seen>>))
=============================================================================
