---------------------------- MODULE SshConfig_MC ----------------------------
(* Finite universes for model checking SshConfig (a TLC .cfg cannot hold records or   *)
(* sequences, so they are defined here and substituted with `Headers <- MC_...`).     *)
EXTENDS SshConfig

P(s) == [neg |-> FALSE, p |-> s]
N(s) == [neg |-> TRUE, p |-> s]
HostH(pats)  == [kind |-> "host", pats |-> pats, crit |-> <<>>]
MatchH(crit) == [kind |-> "match", pats |-> <<>>, crit |-> crit]
Cr(type, neg, pats) == [type |-> type, neg |-> neg, pats |-> pats]
L(k, v)  == [k |-> k, v |-> v, none |-> FALSE]
NoneLine == [k |-> "proxycommand", v |-> <<"n", "o", "n", "e">>, none |-> TRUE]

MC_Env == [luser |-> <<"m", "e">>, home |-> <<"/", "m">>, lhost |-> <<"b", "x">>, fqdn |-> <<"b", "x", ".", "l">>]
MC_Hosts == {<<"a">>, <<"a", "b">>, <<"b">>}

\* headers: wildcards, negation, and the Match forms of Appendix F
MC_HeadersCore == {HostH(<<P(<<"a">>)>>), HostH(<<P(<<"*">>)>>), HostH(<<P(<<"a", "*">>), N(<<"a", "b">>)>>),
                   MatchH(<<Cr("all", FALSE, <<>>)>>), MatchH(<<Cr("final", FALSE, <<>>)>>),
                   MatchH(<<Cr("originalhost", FALSE, <<P(<<"?">>)>>)>>)}
MC_HeadersMore == MC_HeadersCore \cup
                  {HostH(<<P(<<"b">>), P(<<"?", "b">>)>>),
                   MatchH(<<Cr("host", FALSE, <<P(<<"a", "*">>)>>)>>),
                   MatchH(<<Cr("originalhost", TRUE, <<P(<<"a">>)>>)>>),
                   MatchH(<<Cr("user", FALSE, <<P(<<"m", "*">>)>>)>>),
                   MatchH(<<Cr("final", FALSE, <<>>), Cr("originalhost", FALSE, <<P(<<"a", "*">>), N(<<"a">>)>>)>>)}

\* bodies: repeated keys, ProxyCommand none after a command, %h in HostName and in keys obtained before it
MC_BodiesCore == {<<L("port", <<"1">>)>>, <<L("port", <<"2">>), L("port", <<"3">>)>>,
                  <<L("hostname", <<"%h", ".", "x">>)>>,
                  <<L("identityfile", <<"j">>), L("identityfile", <<"%h", "k">>), L("identityfile", <<"j">>)>>,   \* repeat inside a block
                  <<L("identityfile", <<"j">>), L("identityfile", <<"j">>)>>,
                  <<L("proxycommand", <<"c", "%h">>), NoneLine>>,
                  <<NoneLine, L("proxycommand", <<"d">>)>>}
MC_BodiesMore == MC_BodiesCore \cup
                 {<<L("identityfile", <<"%h", "k">>)>>,
                  <<L("user", <<"u">>), L("controlpath", <<"%n", "%r", "%u", "%p">>)>>,
                  <<L("proxycommand", <<"~", "%p", "%r">>)>>,
                  <<L("hostname", <<"b">>), L("user", <<"m", "x">>)>>,
                  <<L("identityfile", <<"~", "%u">>), L("compression", <<"y">>)>>}
\* a block that sets HostName, a `Match host` that applies only through it, another block with the same option
MC_HeadersMH == {HostH(<<P(<<"b">>)>>), MatchH(<<Cr("host", FALSE, <<P(<<"a", "*">>)>>)>>), HostH(<<P(<<"*">>)>>)}
MC_BodiesMH  == {<<L("hostname", <<"a", "b">>)>>, <<L("port", <<"1">>)>>, <<L("port", <<"2">>)>>}
MC_PreNone == {<<>>}
MC_PreSome == {<<>>, <<L("identityfile", <<"%h", "k">>)>>, <<L("port", <<"9">>), L("hostname", <<"%h", "y">>)>>}
=============================================================================
