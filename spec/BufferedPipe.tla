---------------------------- MODULE BufferedPipe ----------------------------
(* C26.  paramiko/buffered_pipe.py BufferedPipe: feed / read(n, timeout) /      *)
(* empty / close from several threads.  One action per critical section of     *)
(* the code (everything between acquiring and releasing self._lock); the wait   *)
(* inside read() releases the lock, so a read is several actions.  Time is the  *)
(* action TimerFires(t): it may happen at any moment while t is inside a timed  *)
(* wait - also after t was notified but before it re-acquired the lock.         *)
EXTENDS Naturals, Sequences, FiniteSets, TLC

CONSTANTS Feeders, Readers, Others,   \* thread ids
          MaxFeed,                    \* bytes each feeder feeds (one per call, numbered)
          ReadSizes,                  \* read sizes tried
          RecheckBeforeTimeout        \* TRUE: repaired read() (re-checks the buffer before raising)

Threads == Feeders \cup Readers \cup Others

VARIABLES buf,      \* Seq of byte ids currently buffered
          closed,
          fed,      \* history: everything fed, in lock order
          got,      \* history: everything returned by read / empty, in lock order
          pc,       \* per thread: "idle" | "waiting" | "woken" | "done"
          tmo,      \* per reader: "none" | "zero" | "pos"   (timeout argument of the current read)
          want,     \* per reader: nbytes of the current read
          expired,  \* per reader: the timeout budget of the current wait is used up
          lastRet,  \* per reader: "none" | "data" | "empty" | "timeout"
          bufAtRet, \* per reader: Len(buf) at the moment of its last return (under the lock)
          closedAtRet,
          nfed      \* per feeder: calls made
vars == <<buf, closed, fed, got, pc, tmo, want, expired, lastRet, bufAtRet, closedAtRet, nfed>>

Min(a, b) == IF a < b THEN a ELSE b
Take(s, n) == SubSeq(s, 1, Min(n, Len(s)))
Drop(s, n) == SubSeq(s, Min(n, Len(s)) + 1, Len(s))

Init == /\ buf = <<>> /\ closed = FALSE /\ fed = <<>> /\ got = <<>>
        /\ pc = [t \in Threads |-> "idle"]
        /\ tmo = [t \in Readers |-> "none"] /\ want = [t \in Readers |-> 1]
        /\ expired = [t \in Readers |-> FALSE]
        /\ lastRet = [t \in Readers |-> "none"] /\ bufAtRet = [t \in Readers |-> 0]
        /\ closedAtRet = [t \in Readers |-> FALSE]
        /\ nfed = [t \in Feeders |-> 0]

Return(t, kind) == /\ lastRet' = [lastRet EXCEPT ![t] = kind]
                   /\ bufAtRet' = [bufAtRet EXCEPT ![t] = Len(buf)]
                   /\ closedAtRet' = [closedAtRet EXCEPT ![t] = closed]

\* feed(data): append, notify_all            (buffered_pipe.py feed)
Feed(t) == /\ t \in Feeders /\ nfed[t] < MaxFeed
           /\ LET d == <<<<t, nfed[t] + 1>>>> IN buf' = buf \o d /\ fed' = fed \o d
           /\ nfed' = [nfed EXCEPT ![t] = @ + 1]
           /\ pc' = [r \in Threads |-> IF pc[r] = "waiting" THEN "woken" ELSE pc[r]]
           /\ UNCHANGED <<closed, got, tmo, want, expired, lastRet, bufAtRet, closedAtRet>>

\* the data-taking tail of read(): runs under the lock
TakeData(t) == /\ got' = got \o Take(buf, want[t])
               /\ buf' = Drop(buf, want[t])

\* read(n, timeout): first critical section
ReadBegin(t, n, k) ==
  /\ t \in Readers /\ pc[t] = "idle"
  /\ want' = [want EXCEPT ![t] = n] /\ tmo' = [tmo EXCEPT ![t] = k]
  /\ expired' = [expired EXCEPT ![t] = FALSE]
  /\ IF buf # <<>>
       THEN /\ got' = got \o Take(buf, n) /\ buf' = Drop(buf, n)
            /\ Return(t, "data") /\ pc' = [pc EXCEPT ![t] = "done"]
       ELSE /\ UNCHANGED <<buf, got>>
            /\ IF closed THEN Return(t, "empty") /\ pc' = [pc EXCEPT ![t] = "done"]
               ELSE IF k = "zero" THEN Return(t, "timeout") /\ pc' = [pc EXCEPT ![t] = "done"]
               ELSE /\ pc' = [pc EXCEPT ![t] = "waiting"]      \* self._cv.wait(timeout): lock released
                    /\ UNCHANGED <<lastRet, bufAtRet, closedAtRet>>
  /\ UNCHANGED <<closed, fed, nfed>>

\* the clock: the waiting (or already notified) reader's budget runs out
TimerFires(t) == /\ t \in Readers /\ pc[t] \in {"waiting", "woken"} /\ tmo[t] = "pos" /\ ~expired[t]
                 /\ expired' = [expired EXCEPT ![t] = TRUE]
                 /\ pc' = [pc EXCEPT ![t] = "woken"]            \* cv.wait returns on timeout too
                 /\ UNCHANGED <<buf, closed, fed, got, tmo, want, lastRet, bufAtRet, closedAtRet, nfed>>

\* wait() returned and the lock is re-acquired: the rest of the while loop / the tail of read()
ReadResume(t) ==
  /\ t \in Readers /\ pc[t] = "woken"
  /\ IF expired[t] /\ (~RecheckBeforeTimeout \/ (buf = <<>> /\ ~closed))
       THEN /\ Return(t, "timeout") /\ pc' = [pc EXCEPT ![t] = "done"] /\ UNCHANGED <<buf, got>>
     ELSE IF buf = <<>> /\ ~closed
       THEN /\ pc' = [pc EXCEPT ![t] = "waiting"] /\ UNCHANGED <<buf, got, lastRet, bufAtRet, closedAtRet>>
     ELSE IF buf = <<>>                                     \* closed and drained: returns b""
       THEN /\ Return(t, "empty") /\ pc' = [pc EXCEPT ![t] = "done"] /\ UNCHANGED <<buf, got>>
     ELSE /\ TakeData(t) /\ Return(t, "data") /\ pc' = [pc EXCEPT ![t] = "done"]
  /\ UNCHANGED <<closed, fed, tmo, want, expired, nfed>>

ReadAgain(t) == /\ t \in Readers /\ pc[t] = "done" /\ pc' = [pc EXCEPT ![t] = "idle"]
                /\ UNCHANGED <<buf, closed, fed, got, tmo, want, expired, lastRet, bufAtRet, closedAtRet, nfed>>

EmptyOp(t) == /\ t \in Others /\ pc[t] = "idle"
              /\ got' = got \o buf /\ buf' = <<>>
              /\ UNCHANGED <<closed, fed, pc, tmo, want, expired, lastRet, bufAtRet, closedAtRet, nfed>>

CloseOp(t) == /\ t \in Others /\ ~closed
              /\ closed' = TRUE
              /\ pc' = [r \in Threads |-> IF pc[r] = "waiting" THEN "woken" ELSE pc[r]]
              /\ UNCHANGED <<buf, fed, got, tmo, want, expired, lastRet, bufAtRet, closedAtRet, nfed>>

Next == \/ \E t \in Feeders : Feed(t)
        \/ \E t \in Readers, n \in ReadSizes, k \in {"none", "zero", "pos"} : ReadBegin(t, n, k)
        \/ \E t \in Readers : TimerFires(t) \/ ReadResume(t) \/ ReadAgain(t)
        \/ \E t \in Others : EmptyOp(t) \/ CloseOp(t)
Spec == Init /\ [][Next]_vars

(* ---- C26 ---- *)
Lossless      == got \o buf = fed                        \* everything read + emptied + still buffered = everything fed, in order
EmptyMeansEOF == \A t \in Readers : lastRet[t] = "empty" => (closedAtRet[t] /\ bufAtRet[t] = 0)
TimeoutMeansNoData == \A t \in Readers : lastRet[t] = "timeout" => bufAtRet[t] = 0
DataIsNonEmpty == \A t \in Readers : lastRet[t] = "data" => TRUE
=============================================================================
