-------------------------------- MODULE Kex --------------------------------
(* C06.  Key exchange (paramiko/kex_group1.py, kex_group14/16.py, kex_gex.py,       *)
(* kex_ecdh_nist.py, kex_curve25519.py; Transport._set_K_H, _verify_key,            *)
(* _activate_outbound, _parse_newkeys).                                            *)
(*                                                                                 *)
(* Cryptography is symbolic (Dolev-Yao): ephemeral secrets are names, Pub / DH /    *)
(* Hash / Sig are free constructors with the usual equations                        *)
(*      DH(x, Pub(y, G), G) = DH(y, Pub(x, G), G)                                   *)
(*      Verify(Pk(k), alg, Sig(k, alg, m), m)                                       *)
(* The spec fixes WHAT is hashed, signed and compared and in which order the code   *)
(* does it; it does not claim the primitives are secure.                            *)
(*                                                                                 *)
(* One client, one server, MaxRekey re-exchanges.  In ANY one exchange - the first, *)
(* which is in clear, or a re-exchange, where the fault sits at the source (a        *)
(* faulty or impersonated server end) - exactly one field of the server's reply as   *)
(* the client reads it differs from the honest one: host key blob K_S, public value  *)
(* f / Q_S, signature (bytes, other data, other key), signature algorithm name; for  *)
(* group exchange also the group of the first exchange.                              *)
(*                                                                                 *)
(* Actions are the code's decision points:                                          *)
(*   ClientStartKex   start_kex(): fresh x, send e = Pub(x)            (client)     *)
(*   ServerReply      _parse_kex*_init(): K, H, _set_K_H, sign, reply, NEWKEYS      *)
(*   Alter(f)         the man in the middle                                         *)
(*   ClientSetKH      _parse_kex*_reply() up to _set_K_H (session id latch)         *)
(*   ClientVerifyKey  _verify_key(): abort, or _activate_outbound + NEWKEYS          *)
(*   Rekey            both ends finished -> next exchange                           *)
EXTENDS Naturals, Sequences, FiniteSets, TLC

CONSTANTS MaxRekey,   \* re-exchanges explored
          Fields,     \* what the attacker may alter: subset of AllFields
          Gex,        \* TRUE: group exchange (the server chooses the group, it is hashed)
          Methods,    \* hash families of the kex methods an exchange may negotiate (digest sizes differ):
                      \* every exchange, the first or a re-exchange, picks one (C05 decides which)
          Mut         \* "none" | seeded design error (sensitivity): "skip_verify", "sid_overwrite",
                      \* "verify_before_hash_binding", "ignore_sig_alg", "verify_only_new_key",
                      \* "sid_by_digest_size", "hash_masked_pub"

\* "pubbit" / "initbit": a bit of f / Q_S (of e / Q_C on its way to the server) that the DH function itself ignores
\* (e.g. the top bit of an X25519 u-coordinate): K is unchanged, only the transcript hash can notice
AllFields == {"hostkey", "pub", "pubbit", "initbit", "sig", "sigalg", "group"}
HostAlg   == "alg"                      \* the negotiated host-key signature algorithm (C05 decides it)
None      == <<"none">>
NoNet     == [ks |-> None, f |-> None, sig |-> None, alg |-> "-"]      \* nothing in flight

(* ---- symbolic terms -------------------------------------------------------- *)
Sec(role, i)      == <<role, i>>                       \* ephemeral secret of `role` in exchange i
Pub(x, G)         == <<"pub", x, G, 0>>                \* 4th component: bits on the wire the DH function ignores
FlipIgnored(p)    == <<p[1], p[2], p[3], 1 - p[4]>>
Mask(p)           == <<p[1], p[2], p[3], 0>>
DH(x, pub, G)     == IF pub[3] = G THEN <<"dh", {x, pub[2]}, G>>
                                   ELSE <<"dh", {x, Sec("mixed", 0)}, G>>   \* value computed in another group
Pk(k)             == <<"pk", k>>
Sig(k, alg, m)    == <<"sig", k, alg, m>>
Verify(pk, alg, s, m) == s = Sig(pk[2], alg, m)
Hash(m, t)        == <<"hash", m, t>>                  \* digest of t with the hash of method family m
\* the exchange hash: identification strings and KEXINIT payloads are constants of a session ("V", "I"),
\* then K_S, the group (group exchange only), both public values, K
ExHash(m, ks, grp, e, f, k) == Hash(m, <<"V_C", "V_S", "I_C", "I_S", ks, IF Gex THEN grp ELSE "fixed", e, f, k>>)

HonestGroup == "G"
ServerKey   == "hkS"                    \* the server's host key (private half known to the server only)
AttackerKey == "hkA"                    \* another valid key pair, owned by the attacker

VARIABLES n,          \* index of the current exchange (0 = first)
          meth,       \* hash family of the kex method negotiated for the current exchange
          meths,      \* ghost: the families of all exchanges so far
          cst,        \* client: "idle" | "init_sent" | "kh_set" | "done" | "aborted"
          sst,        \* server: "idle" | "replied"
          ce,         \* client's e for this exchange
          se,         \* e as the server receives it
          cgrp,       \* group the client uses (as delivered to it)
          net,        \* what is in flight to the client: NoNet or [ks, f, sig, alg]
          cK, cH, cSid, cShown, cSig,
          cHostKey,   \* Transport.host_key: the key stored by the last successful _verify_key
          sK, sH, sSid,
          altered,    \* fields altered in the current exchange
          attacked,   \* the attacker has used its one edit
          first       \* ghost: <<H of the client's first exchange, H of the server's first exchange>>
vars == <<n, meth, meths, cst, sst, ce, se, cgrp, net, cK, cH, cSid, cShown, cSig, cHostKey, sK, sH, sSid, altered, attacked, first>>

Init == /\ n = 0 /\ meth = "-" /\ meths = <<>> /\ cst = "idle" /\ sst = "idle" /\ ce = None /\ se = None /\ cgrp = HonestGroup /\ net = NoNet
        /\ cK = None /\ cH = None /\ cSid = None /\ cShown = None /\ cSig = None /\ cHostKey = None
        /\ sK = None /\ sH = None /\ sSid = None
        /\ altered = {} /\ attacked = FALSE /\ first = <<None, None>>

(* In group exchange the group reaches the client before it picks e; an altered group is modelled by the  *)
(* client starting in the attacker's group.                                                              *)
ClientStartKex ==
    /\ cst = "idle"
    /\ \E g \in (IF Gex /\ n = 0 /\ ~attacked /\ "group" \in Fields THEN {HonestGroup, "G2"} ELSE {HonestGroup}) :
         /\ cgrp' = g
         /\ ce' = Pub(Sec("c", n), g) /\ se' = Pub(Sec("c", n), g)
         /\ altered' = IF g # HonestGroup THEN {"group"} ELSE {}
         /\ attacked' = (attacked \/ g # HonestGroup)
    /\ \E m \in Methods : meth' = m /\ meths' = Append(meths, m)
    /\ cst' = "init_sent"
    /\ UNCHANGED <<n, sst, net, cK, cH, cSid, cShown, cSig, cHostKey, sK, sH, sSid, first>>

\* Transport._set_K_H: latched by the first exchange, whatever a later H looks like (another digest size included)
SetSid(old, h) == IF \/ old = None
                     \/ Mut = "sid_overwrite"
                     \/ (Mut = "sid_by_digest_size" /\ old # None /\ old[2] # h[2])
                  THEN h ELSE old

\* what goes into the exchange hash for a received public value: the octets received (seeded error: a masked copy)
Hashed(p) == IF Mut = "hash_masked_pub" THEN Mask(p) ELSE p

AlterInit ==
    /\ n = 0 /\ ~attacked /\ cst = "init_sent" /\ sst = "idle" /\ "initbit" \in Fields
    /\ se' = FlipIgnored(se)
    /\ altered' = altered \cup {"initbit"} /\ attacked' = TRUE
    /\ UNCHANGED <<n, meth, meths, cst, sst, ce, cgrp, net, cK, cH, cSid, cShown, cSig, cHostKey, sK, sH, sSid, first>>

ServerReply ==
    /\ sst = "idle" /\ cst = "init_sent"
    /\ LET f == Pub(Sec("s", n), HonestGroup)
           k == DH(Sec("s", n), se, HonestGroup)
           h == ExHash(meth, Pk(ServerKey), HonestGroup, Hashed(se), f, k)
       IN  /\ sK' = k /\ sH' = h /\ sSid' = SetSid(sSid, h)
           /\ first' = IF n = 0 THEN <<first[1], h>> ELSE first
           /\ net' = [ks |-> Pk(ServerKey), f |-> f, sig |-> Sig(ServerKey, HostAlg, h), alg |-> HostAlg]
    /\ sst' = "replied"
    /\ UNCHANGED <<n, meth, meths, cst, ce, se, cgrp, cK, cH, cSid, cShown, cSig, cHostKey, altered, attacked>>

(* exactly one field gets a different VALUE (not merely another encoding) *)
Alter(fld) ==
    /\ ~attacked /\ net # NoNet /\ cst = "init_sent" /\ fld \in Fields \ {"group", "initbit"}
    /\ net' = CASE fld = "hostkey" -> [net EXCEPT !.ks = Pk(AttackerKey)]
                [] fld = "pub"     -> [net EXCEPT !.f = Pub(Sec("a", 0), HonestGroup)]
                [] fld = "pubbit"  -> [net EXCEPT !.f = FlipIgnored(net.f)]
                [] fld = "sig"     -> [net EXCEPT !.sig = Sig("nobody", HostAlg, sH)]
                [] fld = "sigalg"  -> [net EXCEPT !.alg = "alg2"]      \* the blob now names another algorithm
    /\ altered' = altered \cup {fld} /\ attacked' = TRUE
    /\ UNCHANGED <<n, meth, meths, cst, sst, ce, se, cgrp, cK, cH, cSid, cShown, cSig, cHostKey, sK, sH, sSid, first>>

ClientSetKH ==
    /\ cst = "init_sent" /\ net # NoNet
    /\ LET k == DH(Sec("c", n), net.f, cgrp)
           h == ExHash(meth, net.ks, cgrp, ce, Hashed(net.f), k)
       IN  /\ cK' = k /\ cH' = h /\ cSid' = SetSid(cSid, h)
           /\ first' = IF n = 0 THEN <<h, first[2]>> ELSE first
    /\ cShown' = net.ks /\ cSig' = net.sig
    /\ cst' = "kh_set"
    /\ UNCHANGED <<n, meth, meths, sst, ce, se, cgrp, net, cHostKey, sK, sH, sSid, altered, attacked>>

(* the relabelled signature is a signature made with HostAlg whose blob claims net.alg; verification under  *)
(* the negotiated algorithm must fail for it                                                              *)
SigChecks == /\ (Mut = "ignore_sig_alg" \/ net.alg = HostAlg)
             /\ Verify(cShown, HostAlg, cSig, IF Mut = "verify_before_hash_binding" THEN sH ELSE cH)

\* seeded error "verify_only_new_key": the checks run only when the shown blob is not the stored host key
Passes == \/ Mut = "skip_verify"
          \/ (Mut = "verify_only_new_key" /\ cHostKey = cShown)
          \/ SigChecks
ClientVerifyKey ==
    /\ cst = "kh_set"
    /\ cst' = IF Passes THEN "done" ELSE "aborted"
    /\ cHostKey' = IF Passes THEN cShown ELSE cHostKey
    /\ net' = NoNet
    /\ UNCHANGED <<n, meth, meths, sst, ce, se, cgrp, cK, cH, cSid, cShown, cSig, sK, sH, sSid, altered, attacked, first>>

Rekey ==
    /\ cst = "done" /\ sst = "replied" /\ n < MaxRekey
    /\ n' = n + 1 /\ cst' = "idle" /\ sst' = "idle" /\ altered' = {} /\ cgrp' = HonestGroup
    /\ UNCHANGED <<meth, meths, ce, se, net, cK, cH, cSid, cShown, cSig, cHostKey, sK, sH, sSid, attacked, first>>

Next == ClientStartKex \/ AlterInit \/ ServerReply \/ (\E f \in Fields : Alter(f)) \/ ClientSetKH \/ ClientVerifyKey \/ Rekey
Spec == Init /\ [][Next]_vars

(* ---- the property, as predicates over observable values (shared with Kex_Trace) ---- *)
\* a completed exchange: same secret, same exchange hash, signature over that hash verifies under the shown key
AgreeP(done, kc, ks, hc, hs, sigok) == done => (kc = ks /\ hc = hs /\ sigok)
\* the session identifier is the first exchange hash, for ever
SidP(sid, firstH)                   == sid = firstH
\* an altered reply is never accepted
AbortP(isAltered, accepted)         == isAltered => ~accepted

Agreement        == AgreeP(cst = "done", cK, sK, cH, sH, cst = "done" /\ Verify(cShown, HostAlg, cSig, cH))
\* after EVERY finished exchange the shown and the stored host key are the server's
HostKeyAuthentic == cst = "done" => cShown = Pk(ServerKey) /\ cHostKey = Pk(ServerKey)
SessionIdFixed   == /\ (cSid # None => SidP(cSid, first[1]))
                    /\ (sSid # None => SidP(sSid, first[2]))
SidNeverChanges  == [][(cSid # None => cSid' = cSid) /\ (sSid # None => sSid' = sSid)]_vars
AlteredAborts    == AbortP(altered # {}, cst = "done")

(* ---- spec -> code: one CASE per (altered field, number of re-exchanges) ------- *)
Emit == cst \in {"done", "aborted"} =>
            PrintT(<<"CASE", IF altered = {} THEN "none" ELSE CHOOSE f \in altered : TRUE, n, cst, meths>>)
=============================================================================
