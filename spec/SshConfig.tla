------------------------------ MODULE SshConfig ------------------------------
(* C40.  ssh_config lookup (paramiko/config.py: SSHConfig.parse, lookup, _lookup,   *)
(* _pattern_matches, _does_match, _expand_variables / _tokenize, get_hostnames).    *)
(*                                                                               *)
(* TLC strings are atomic, so everything with character structure is a sequence:    *)
(*   atom    a one-character string, or one of the token names "%h" "%n" "%p" "%r"   *)
(*           "%u" "%d" "~" "%l" "%L" "%C"                                           *)
(*   value   Seq(atom)         (the text of a value is the concatenation)           *)
(*   pattern [neg, p : Seq(char)] with "*" and "?" wildcards                        *)
(*   line    [k : key (lower case), v : value, none : BOOLEAN]   (`ProxyCommand none`)*)
(*   block   [kind : "host" | "match", implicit, pats : Seq(pattern),               *)
(*            crit : Seq([type, neg, pats])), body : Seq(line)]                      *)
(*   config  Seq(block); block 1 is the implicit `Host *` block holding the lines     *)
(*           before the first Host/Match line                                       *)
(* The driver renders a config to text from this structure and turns returned        *)
(* strings into Seq(char); nothing is parsed by the harness.                         *)
(*                                                                               *)
(* fx = [none_overrides, h_in_dict_order] selects the pinned behaviour of two code    *)
(* paths (both FALSE = the repaired algorithm):                                      *)
(*   none_overrides    `ProxyCommand none` is stored unconditionally while parsing,   *)
(*                     replacing an earlier ProxyCommand of the SAME block            *)
(*   snapshot_filter   (seeded design error, never the code) a later block's IdentityFile  *)
(*                     values are filtered against the list as it was BEFORE that block,    *)
(*                     so a repeat inside the later block gets through                      *)
(*   keep_block_repeats  parse keeps an IdentityFile value repeated inside one block; the    *)
(*                     first contributing block's list is copied as is (value[:]), so such   *)
(*                     a repeat survives there - later blocks are filtered value by value    *)
(*                     against the growing list.  TRUE = the code; OpenSSH itself never       *)
(*                     registers a duplicate (add_identity_file), see StrictFirstBlock         *)
(*   h_in_dict_order   _expand_variables walks the result dict in insertion order and  *)
(*                     substitutes %h with whatever `hostname` holds at that moment:    *)
(*                     still unexpanded if HostName was obtained after that key         *)
EXTENDS Naturals, Sequences, FiniteSets, TLC

CONSTANTS Headers,      \* model checking: set of block headers [kind, pats, crit]
          Bodies,       \* model checking: set of block bodies (Seq(line))
          Preambles,    \* model checking: bodies of the implicit first block
          HostNames,    \* model checking: set of looked-up host names (Seq(char))
          MaxBlocks,    \* model checking: explicit blocks per config
          Env,          \* [luser, home, lhost, fqdn : Seq(char)] - the local machine
          PinNone, PinOrder, PinSnapshot, KeepRepeats, PinMatchHost,   \* model checking: the fx the walk uses
          StrictFirstBlock    \* TRUE: "without duplicates" is demanded of the whole final list (OpenSSH);
                              \* FALSE: also accepted: the first contributing block's own list taken as written

Range(s) == {s[i] : i \in 1..Len(s)}
RECURSIVE Flatten(_)
Flatten(ss) == IF ss = <<>> THEN <<>> ELSE Head(ss) \o Flatten(Tail(ss))

(* ---- patterns (fnmatch restricted to * and ?) ---- *)
RECURSIVE WildMatch(_, _)
WildMatch(p, s) ==
    IF p = <<>> THEN s = <<>>
    ELSE IF Head(p) = "*" THEN WildMatch(Tail(p), s) \/ (s # <<>> /\ WildMatch(p, Tail(s)))
    ELSE s # <<>> /\ (Head(p) = "?" \/ Head(p) = Head(s)) /\ WildMatch(Tail(p), Tail(s))
\* some pattern matches and no negated pattern does
PatternMatches(pats, s) ==
    /\ \E i \in 1..Len(pats) : ~pats[i].neg /\ WildMatch(pats[i].p, s)
    /\ ~\E i \in 1..Len(pats) : pats[i].neg /\ WildMatch(pats[i].p, s)
PatternText(pt) == (IF pt.neg THEN <<"!">> ELSE <<>>) \o pt.p

(* ---- tokens ---- *)
Tokens == {"%h", "%n", "%p", "%r", "%u", "%d", "~", "%l", "%L", "%C"}
TokChars(a) == CASE a = "%h" -> <<"%", "h">> [] a = "%n" -> <<"%", "n">> [] a = "%p" -> <<"%", "p">>
                 [] a = "%r" -> <<"%", "r">> [] a = "%u" -> <<"%", "u">> [] a = "%d" -> <<"%", "d">>
                 [] a = "%l" -> <<"%", "l">> [] a = "%L" -> <<"%", "L">> [] a = "%C" -> <<"%", "C">>
                 [] OTHER -> <<a>>
Raw(v) == Flatten([i \in 1..Len(v) |-> TokChars(v[i])])      \* the characters of an unexpanded value
\* the documented table: which tokens are expanded in which option
Allowed(k) == CASE k = "controlpath"  -> {"%C", "%h", "%l", "%L", "%n", "%p", "%r", "%u"}
                [] k = "hostname"     -> {"%h"}
                [] k = "identityfile" -> {"%C", "~", "%d", "%h", "%l", "%u", "%r"}
                [] k = "proxycommand" -> {"~", "%h", "%p", "%r"}
                [] k = "proxyjump"    -> {"%h", "%p", "%r"}
                [] OTHER -> {}
ListKeys == {"identityfile"}
NoneVal  == <<"<none>">>        \* ProxyCommand none
HashAtom == "<C>"               \* stands for the 40 hex digits %C expands to
HexDigits == {"0", "1", "2", "3", "4", "5", "6", "7", "8", "9", "a", "b", "c", "d", "e", "f"}

(* ---- ordered dictionaries: Seq([k, vals : Seq(value)]) ---- *)
Has(d, k)  == \E i \in 1..Len(d) : d[i].k = k
Idx(d, k)  == CHOOSE i \in 1..Len(d) : d[i].k = k
Get(d, k)  == d[Idx(d, k)].vals
Put(d, k, vals) == IF Has(d, k) THEN [d EXCEPT ![Idx(d, k)].vals = vals] ELSE Append(d, [k |-> k, vals |-> vals])
KeysOf(d)  == {d[i].k : i \in 1..Len(d)}

(* ---- parse: the lines of one block become its dictionary (first occurrence of a key wins) ---- *)
AddLine(d, ln, fx) ==
    IF ln.k = "proxycommand" /\ ln.none
    THEN (IF fx.none_overrides \/ ~Has(d, ln.k) THEN Put(d, ln.k, <<NoneVal>>) ELSE d)
    ELSE IF ln.k \in ListKeys
    THEN (IF ~Has(d, ln.k) THEN Append(d, [k |-> ln.k, vals |-> <<ln.v>>])
          ELSE IF ~fx.keep_block_repeats /\ ln.v \in Range(Get(d, ln.k)) THEN d
          ELSE Put(d, ln.k, Append(Get(d, ln.k), ln.v)))
    ELSE IF Has(d, ln.k) THEN d ELSE Append(d, [k |-> ln.k, vals |-> <<ln.v>>])
RECURSIVE BlockDictFrom(_, _, _)
BlockDictFrom(body, d, fx) == IF body = <<>> THEN d ELSE BlockDictFrom(Tail(body), AddLine(d, Head(body), fx), fx)
BlockDict(b, fx) == BlockDictFrom(b.body, <<>>, fx)

(* ---- does a block apply? (_pattern_matches / _does_match) ---- *)
\* `Match host` is tested against the HostName obtained SO FAR (in either pass), else against the looked-up name.
\* fx.match_host_final_only (seeded design error, never the code): the obtained HostName is consulted in the
\* final pass only - a Match block that applies through it then loses to a later block in the first pass
RECURSIVE CritHold(_, _, _, _, _, _)
CritHold(cs, host, opts, final, env, fx) ==
    IF cs = <<>> THEN TRUE
    ELSE LET c == Head(cs)
             passed == CASE c.type = "final"        -> final
                         [] c.type = "host"         -> PatternMatches(c.pats, IF Has(opts, "hostname") /\ (final \/ ~fx.match_host_final_only)
                                                                                    THEN Raw(Get(opts, "hostname")[1]) ELSE host)
                         [] c.type = "originalhost" -> PatternMatches(c.pats, host)
                         [] c.type = "user"         -> PatternMatches(c.pats, IF Has(opts, "user") THEN Raw(Get(opts, "user")[1]) ELSE env.luser)
                         [] OTHER -> TRUE
         IN  IF c.type = "all" THEN TRUE
             ELSE IF passed = c.neg THEN FALSE
             ELSE CritHold(Tail(cs), host, opts, final, env, fx)
Applies(b, host, opts, final, env, fx) ==
    IF b.kind = "host" THEN PatternMatches(b.pats, host) ELSE CritHold(b.crit, host, opts, final, env, fx)

(* ---- one pass over the blocks (_lookup): first obtained value wins, IdentityFile accumulates ---- *)
RECURSIVE ExtendNew(_, _)
ExtendNew(acc, vals) == IF vals = <<>> THEN acc
                        ELSE ExtendNew(IF Head(vals) \in Range(acc) THEN acc ELSE Append(acc, Head(vals)), Tail(vals))
\* (seeded error) the candidates are all tested against the list as it was before this block
ExtendSnapshot(acc, vals) == acc \o SelectSeq(vals, LAMBDA x : x \notin Range(acc))
\* the first block that has the key hands over its list as it is (value[:]); later IdentityFile lists are
\* added value by value unless already there (list.extend over a generator that looks at the growing list)
MergeEntry(opts, e, fx) ==
    IF ~Has(opts, e.k) THEN Append(opts, e)
    ELSE IF e.k = "identityfile"
         THEN Put(opts, e.k, IF fx.snapshot_filter THEN ExtendSnapshot(Get(opts, e.k), e.vals) ELSE ExtendNew(Get(opts, e.k), e.vals))
         ELSE opts
RECURSIVE Merge(_, _, _)
Merge(opts, d, fx) == IF d = <<>> THEN opts ELSE Merge(MergeEntry(opts, Head(d), fx), Tail(d), fx)
Visit(opts, b, host, final, env, fx) == IF Applies(b, host, opts, final, env, fx) THEN Merge(opts, BlockDict(b, fx), fx) ELSE opts
RECURSIVE Pass(_, _, _, _, _, _, _)
Pass(cfg, i, opts, host, final, env, fx) ==
    IF i > Len(cfg) THEN opts
    ELSE LET o == Visit(opts, cfg[i], host, final, env, fx)
         IN  IF Len(o) >= 0 THEN Pass(cfg, i + 1, o, host, final, env, fx) ELSE o   \* (the test only makes TLC evaluate o now)
\* which blocks applied during a pass (needed to say when a config is unambiguous)
RECURSIVE AppVec(_, _, _, _, _, _, _)
AppVec(cfg, i, opts, host, final, env, fx) ==
    IF i > Len(cfg) THEN <<>>
    ELSE LET o == Visit(opts, cfg[i], host, final, env, fx)
         IN  IF Len(o) >= 0
             THEN <<Applies(cfg[i], host, opts, final, env, fx)>> \o AppVec(cfg, i + 1, o, host, final, env, fx)
             ELSE <<>>
InjectHostName(opts, host) == IF Has(opts, "hostname") THEN opts ELSE Append(opts, [k |-> "hostname", vals |-> <<host>>])

(* ---- token expansion (_expand_variables / _tokenize) ---- *)
\* ctx = [h, n, p, r, u : Seq(char)] - what %h %n %p %r %u stand for; %d ~ %l %L come from env
Tokenize(k, v, ctx, env) ==
    LET repl(a) == CASE a = "%h" -> ctx.h [] a = "%n" -> ctx.n [] a = "%p" -> ctx.p
                     [] a = "%r" -> ctx.r [] a = "%u" -> ctx.u
                     [] a \in {"%d", "~"} -> env.home
                     [] a = "%l" -> env.fqdn [] a = "%L" -> env.lhost
                     [] OTHER -> <<HashAtom>>
    IN  Flatten([j \in 1..Len(v) |-> IF v[j] \in Allowed(k) THEN repl(v[j]) ELSE TokChars(v[j])])
PortOf(opts)       == IF Has(opts, "port") THEN Raw(Get(opts, "port")[1]) ELSE <<"2", "2">>
RUserOf(opts, env) == IF Has(opts, "user") THEN Raw(Get(opts, "user")[1]) ELSE env.luser
Ctx(h, opts, host, env, uRemote) ==
    [h |-> h, n |-> host, p |-> PortOf(opts), r |-> RUserOf(opts, env),
     u |-> IF uRemote THEN RUserOf(opts, env) ELSE env.luser]
\* HostName itself: %h is the looked-up name
ExpandedHostName(opts, host, env) ==
    Tokenize("hostname", Get(opts, "hostname")[1], Ctx(host, opts, host, env, FALSE), env)
\* entries are rewritten one after the other; `cur` is the dictionary as it stands
RECURSIVE ExpandFrom(_, _, _, _, _, _)
ExpandFrom(cur, i, host, env, fx, uRemote) ==
    IF i > Len(cur) THEN cur
    ELSE LET e == cur[i]
             h == IF e.k = "hostname" THEN host
                  ELSE IF fx.h_in_dict_order THEN Raw(Get(cur, "hostname")[1])     \* whatever is there now
                  ELSE ExpandedHostName(cur, host, env)
             new == IF e.vals = <<NoneVal>> THEN e.vals
                    ELSE [j \in 1..Len(e.vals) |-> Tokenize(e.k, e.vals[j], Ctx(h, cur, host, env, uRemote), env)]
         IN  IF ~fx.h_in_dict_order /\ e.k = "hostname"
             THEN ExpandFrom(cur, i + 1, host, env, fx, uRemote)       \* repaired: HostName is rewritten last
             ELSE ExpandFrom([cur EXCEPT ![i].vals = new], i + 1, host, env, fx, uRemote)
ExpandAll(opts, host, env, fx, uRemote) ==
    LET r == ExpandFrom(opts, 1, host, env, fx, uRemote)
    IN  IF fx.h_in_dict_order THEN r ELSE Put(r, "hostname", <<ExpandedHostName(opts, host, env)>>)

(* ---- lookup(): two passes, HostName default in between, expansion at the end ---- *)
Pass1(cfg, host, env, fx)  == InjectHostName(Pass(cfg, 1, <<>>, host, FALSE, env, fx), host)
Pass2(cfg, host, env, fx)  == Pass(cfg, 1, Pass1(cfg, host, env, fx), host, TRUE, env, fx)
Lookup(cfg, host, env, fx, uRemote) == ExpandAll(Pass2(cfg, host, env, fx), host, env, fx, uRemote)
App1(cfg, host, env, fx)   == AppVec(cfg, 1, <<>>, host, FALSE, env, fx)
App2(cfg, host, env, fx)   == AppVec(cfg, 1, Pass1(cfg, host, env, fx), host, TRUE, env, fx)

(* ---- the statement of C40, declaratively -------------------------------------- *)
Good == [none_overrides |-> FALSE, h_in_dict_order |-> FALSE, snapshot_filter |-> FALSE, keep_block_repeats |-> FALSE,
         match_host_final_only |-> FALSE]
Lax  == [Good EXCEPT !.keep_block_repeats = TRUE]      \* blocks parsed with their IdentityFile lists as written
\* a config/host pair is unambiguous when every block applies in both passes or in neither,
\* except `Match final` blocks, which by definition apply in the final pass only (Appendix F)
HasFinal(b) == b.kind = "match" /\ \E i \in 1..Len(b.crit) : b.crit[i].type = "final"
StableFrom(a1, a2, cfg) == \A i \in 1..Len(cfg) : HasFinal(cfg[i]) \/ a1[i] = a2[i]
Stable(cfg, host, env) == StableFrom(App1(cfg, host, env, Good), App2(cfg, host, env, Good), cfg)
\* the dictionaries of all blocks, parsed once (ds[i] = BlockDict(cfg[i], fx)), as a plain tuple.  The
\* declarative definitions below read them with IdentityFile lists as written (Lax)
RECURSIVE DictsFrom(_, _, _)
DictsFrom(cfg, i, fx) == IF i > Len(cfg) THEN <<>> ELSE <<BlockDict(cfg[i], fx)>> \o DictsFrom(cfg, i + 1, fx)
DictsFx(cfg, fx) == DictsFrom(cfg, 1, fx)
Dicts(cfg) == DictsFx(cfg, Lax)
\* both passes in one go over pre-parsed blocks: which blocks applied in each pass, and the unexpanded result.
\* Same values as App1 / App2 / Pass2 (invariant PartsAgree); the trace spec uses this form because it walks
\* every block twice instead of seven times per lookup.
RECURSIVE WalkD(_, _, _, _, _, _, _, _, _)
WalkD(cfg, ds, i, opts, app, host, final, env, fx) ==
    IF i > Len(cfg) THEN [opts |-> opts, app |-> app]
    ELSE LET yes == Applies(cfg[i], host, opts, final, env, fx)
             o   == IF yes THEN Merge(opts, ds[i], fx) ELSE opts
         IN  IF Len(o) >= 0 THEN WalkD(cfg, ds, i + 1, o, Append(app, yes), host, final, env, fx) ELSE [opts |-> o, app |-> app]
LookupParts(cfg, ds, host, env, fx) ==
    LET w1 == WalkD(cfg, ds, 1, <<>>, <<>>, host, FALSE, env, fx)
        w2 == WalkD(cfg, ds, 1, InjectHostName(w1.opts, host), <<>>, host, TRUE, env, fx)
    IN  [a1 |-> w1.app, a2 |-> w2.app, raw |-> w2.opts]
\* "the first block in file order that applies": reading A = blocks applying at the end, in file order;
\* reading B = values obtained in the first pass stay, `Match final` blocks only add (OpenSSH's two passes)
FirstWith(app, ds, k) ==
    LET S == {i \in 1..Len(ds) : app[i] /\ Has(ds[i], k)}
    IN  IF S = {} THEN 0 ELSE CHOOSE i \in S : \A j \in S : i <= j
\* IdentityFile: the values of all applying blocks in order of first occurrence, none twice.
\* lenient = the reading that demands less of a value repeated INSIDE the first contributing block: that
\* block's list is taken as written, "without duplicates" then governs what accumulates on top of it
\* (a repeat inside a later block is a duplicate of an accumulated value under either reading)
RECURSIVE Accumulate(_, _, _, _, _, _)
Accumulate(app, ds, i, k, acc, lenient) ==
    IF i > Len(ds) THEN acc
    ELSE Accumulate(app, ds, i + 1, k,
                    IF ~(app[i] /\ Has(ds[i], k)) THEN acc
                    ELSE IF lenient /\ acc = <<>> THEN Get(ds[i], k)
                    ELSE ExtendNew(acc, Get(ds[i], k)), lenient)
\* a1, a2 = which blocks applied in the first / final pass.  <<>> = option not obtained
DeclRaw(a1, a2, ds, host, k, twoPass, lenient) ==
    LET i1 == FirstWith(a1, ds, k)
        i2 == FirstWith(a2, ds, k)
        pick == IF twoPass /\ i1 # 0 THEN i1 ELSE i2
    IN  IF k \in ListKeys
        THEN (IF twoPass THEN Accumulate(a2, ds, 1, k, Accumulate(a1, ds, 1, k, <<>>, lenient), lenient)
              ELSE Accumulate(a2, ds, 1, k, <<>>, lenient))
        ELSE IF k = "hostname" /\ twoPass /\ i1 = 0 THEN <<host>>   \* the default is set between the passes
        ELSE IF pick = 0 THEN (IF k = "hostname" THEN <<host>> ELSE <<>>)
        ELSE Get(ds[pick], k)
AllKeysOf(ds) == UNION {KeysOf(ds[i]) : i \in 1..Len(ds)} \cup {"hostname"}
AllKeys(cfg)  == AllKeysOf(Dicts(cfg))
\* the value the statement asks for: first obtained, then tokens expanded as documented
DeclExpanded(a1, a2, ds, host, env, k, twoPass, uRemote, lenient) ==
    LET raw(x) == DeclRaw(a1, a2, ds, host, x, twoPass, lenient)
        first(x, dflt) == IF raw(x) = <<>> THEN dflt ELSE Raw(raw(x)[1])
        ruser == first("user", env.luser)
        base  == [h |-> host, n |-> host, p |-> first("port", <<"2", "2">>), r |-> ruser,
                  u |-> IF uRemote THEN ruser ELSE env.luser]
        hn    == Tokenize("hostname", raw("hostname")[1], base, env)
        vals  == raw(k)
    IN  IF vals = <<>> \/ vals = <<NoneVal>> THEN vals
        ELSE [j \in 1..Len(vals) |-> Tokenize(k, vals[j], IF k = "hostname" THEN base ELSE [base EXCEPT !.h = hn], env)]

\* observed text against expected atoms: HashAtom stands for 40 hex digits
TextMatches(exp, obs) ==
    LET hashes(n) == Cardinality({j \in 1..n : exp[j] = HashAtom})
        at(n) == n + 39 * hashes(n - 1)                       \* where expected atom n starts in the observed text
    IN  IF \A n \in 1..Len(exp) : exp[n] # HashAtom THEN exp = obs        \* the common case, cheaply
        ELSE /\ Len(obs) = Len(exp) + 39 * hashes(Len(exp))
             /\ \A n \in 1..Len(exp) :
                   IF exp[n] = HashAtom THEN \A d \in 0..39 : obs[at(n) + d] \in HexDigits
                   ELSE obs[at(n)] = exp[n]
ValsMatch(exp, obs) == Len(exp) = Len(obs) /\ \A i \in 1..Len(exp) : TextMatches(exp[i], obs[i])

\* get_hostnames(): every pattern of every Host line
HostPatterns(cfg) == UNION {{PatternText(cfg[i].pats[j]) : j \in 1..Len(cfg[i].pats)} :
                               i \in {x \in 1..Len(cfg) : cfg[x].kind = "host" /\ ~cfg[x].implicit}}

(* ---- state machine: the walk lookup() performs ---------------------------------- *)
VARIABLES cfg, host,   \* the parsed file and the name looked up
          pc,          \* "pass1" | "pass2" | "expand" | "done"
          i,           \* next block
          opts         \* the options dictionary being built
vars == <<cfg, host, pc, i, opts>>
Fx == [none_overrides |-> PinNone, h_in_dict_order |-> PinOrder, snapshot_filter |-> PinSnapshot, keep_block_repeats |-> KeepRepeats,
       match_host_final_only |-> PinMatchHost]

RECURSIVE Configs(_)
Configs(n) == IF n = 0 THEN {<<>>}
              ELSE Configs(n - 1) \cup {Append(c, [kind |-> h.kind, implicit |-> FALSE, pats |-> h.pats, crit |-> h.crit, body |-> b]) :
                                           c \in Configs(n - 1), h \in Headers, b \in Bodies}
ImplicitBlock(body) == [kind |-> "host", implicit |-> TRUE, pats |-> <<[neg |-> FALSE, p |-> <<"*">>]>>, crit |-> <<>>, body |-> body]

Init == /\ cfg \in {<<ImplicitBlock(pre)>> \o c : pre \in Preambles, c \in Configs(MaxBlocks)}
        /\ host \in HostNames
        /\ pc = "pass1" /\ i = 1 /\ opts = <<>>
VisitBlock == /\ pc \in {"pass1", "pass2"} /\ i <= Len(cfg)
              /\ opts' = Visit(opts, cfg[i], host, pc = "pass2", Env, Fx)
              /\ i' = i + 1 /\ UNCHANGED <<cfg, host, pc>>
EndFirstPass == /\ pc = "pass1" /\ i > Len(cfg)
                /\ opts' = InjectHostName(opts, host)
                /\ pc' = "pass2" /\ i' = 1 /\ UNCHANGED <<cfg, host>>
ExpandVariables == /\ pc = "pass2" /\ i > Len(cfg)
                   /\ opts' = ExpandAll(opts, host, Env, Fx, FALSE)
                   /\ pc' = "done" /\ UNCHANGED <<cfg, host, i>>
Next == VisitBlock \/ EndFirstPass \/ ExpandVariables
Spec == Init /\ [][Next]_vars

(* ---- properties ---- *)
Done == pc = "done"
Result(k) == IF Has(opts, k) THEN Get(opts, k) ELSE <<>>
\* each option's value is the one from the first applying block (either reading), tokens expanded;
\* IdentityFile accumulates without duplicates; HostName defaults to the looked-up name
FirstObtained ==
    Done => LET a1 == App1(cfg, host, Env, Good)
                a2 == App2(cfg, host, Env, Good)
                ds == Dicts(cfg)
            IN  StableFrom(a1, a2, cfg) =>
                    \A k \in AllKeysOf(ds) :
                        \E tp \in BOOLEAN, len \in (IF StrictFirstBlock THEN {FALSE} ELSE BOOLEAN) :
                            Result(k) = DeclExpanded(a1, a2, ds, host, Env, k, tp, FALSE, len)
PartsAgree    == Done => LET pt == LookupParts(cfg, DictsFx(cfg, Fx), host, Env, Fx)
                         IN  /\ pt.a1 = App1(cfg, host, Env, Fx) /\ pt.a2 = App2(cfg, host, Env, Fx)
                             /\ pt.raw = Pass2(cfg, host, Env, Fx)
NoStrayKeys   == Done => KeysOf(opts) \subseteq AllKeys(cfg)
\* the stepwise walk is the fold the trace spec uses
WalkIsLookup  == Done => opts = Lookup(cfg, host, Env, Fx, FALSE)
\* spec -> code replay: one CASE per finished walk.  ToString keeps TLC's pretty-printer out of the way
\* (it dominates the run otherwise); the check parses the string back with the same value parser
Emit == Done => PrintT(<<"CASE", ToString(<<cfg, host, Stable(cfg, host, Env)>>)>>)
=============================================================================
