------------------------- MODULE SftpClientProto_Gen -------------------------
(* spec -> code generation: every application program (sequence of calls with their  *)
(* arguments) of the bounded model, emitted once each; the check scales them to bytes   *)
(* and runs them on the real client.                                                    *)
EXTENDS SftpClientProto
VARIABLE prog
Calls == (IF "prefetch" \in Ops THEN {<<"prefetch", m>> : m \in Limits} ELSE {})
         \cup (IF "read" \in Ops THEN {<<"read", n>> : n \in ReadSizes} ELSE {})
         \cup (IF "seek" \in Ops THEN {<<"seek", p>> : p \in SeekPos} ELSE {})
         \cup (IF "readv" \in Ops THEN {<<"readv", cs, m>> : cs \in VSeqs, m \in Limits} ELSE {})
GInit == Init /\ prog = <<>>
GNext == /\ Len(prog) < MaxOps /\ \E c \in Calls : prog' = Append(prog, c)
         /\ UNCHANGED vars
GSpec == GInit /\ [][GNext]_<<vars, prog>>
Emit == prog # <<>> => PrintT(<<"CASE", prog>>)
=============================================================================
