-------------------------- MODULE ServerAuth_Trace --------------------------
(* code -> spec for C14 / C16.  One trace = one real connection: a real client        *)
(* Transport (hand-driven after a real handshake) against a real server Transport      *)
(* with a schedule-controlled ServerInterface (harness/drivers/auth.py).               *)
(*   [opts: [gss, ctx, bound], cap, steps: Seq of                                       *)
(*      [req   the abstract client message (fields of ServerAuth!Blank),                *)
(*       cbs   credential callbacks the server evaluated for it: Seq [name, user, res], *)
(*       out   its replies in wire order,                                               *)
(*       authed, alive, mode   is_authenticated() / Transport.active / which handler    *)
(*                             object is installed, sampled when the message is done]]   *)
(* The step is total.  The variables of ServerAuth are set from what the CODE did      *)
(* (authUser, expect, offer and failCount - the code's private counter - are ghosts kept by   *)
(* the specification's own rules; `failed` counts the FAILURE replies really sent)     *)
(* and the invariants / step properties of ServerAuth are evaluated on them:           *)
(*   bad' = names of the ones that fail (P_ = clauses of C14 / C16).                   *)
(* C_step compares the code's step with ServerAuth!Handle on the same message.         *)
EXTENDS ServerAuth, Json, IOUtils, TLCExt
Batch == JsonDeserialize(IOEnv.TRACE_FILE)
VARIABLES tid, l, bad
tvars == <<tid, l, bad, vars>>
R == Batch[tid]
T == R.steps
E == T[l]
S(c, name) == IF c THEN {} ELSE {name}

TInit == /\ tid \in 1..Len(Batch) /\ l = 1 /\ bad = {}
         /\ cfg = R.opts
         /\ authUser = "" /\ failCount = 0 /\ authenticated = FALSE /\ alive = TRUE
         /\ mode = "plain" /\ expect = "any" /\ offer = FALSE /\ rekeyed = FALSE /\ req = Blank /\ cbs = <<>> /\ out = <<>>
         /\ grantedBy = Nobody /\ failed = 0

\* without a callable GSS table the pinned tree dies on every message; a tree with a repaired dispatch decides
Agrees(a) == /\ a.cbs = E.cbs /\ a.out = E.out /\ a.st.authenticated = E.authed /\ a.st.alive = E.alive
             /\ (E.alive => a.st.mode = E.mode)
Conforms(m) == Agrees(m) \/ (mode = "gss" /\ ~cfg.bound /\ Agrees(Handle([cfg EXCEPT !.bound = TRUE], Ctl, E.req)))

\* Model = what ServerAuth says this message does in the current state
TStep(Model) ==
  /\ l' = l + 1 /\ tid' = tid
  /\ cfg' = cfg /\ req' = E.req
  /\ authUser' = Model.st.authUser /\ expect' = Model.st.expect /\ offer' = Model.st.offer /\ rekeyed' = Model.st.rekeyed
  /\ failCount' = Model.st.failCount /\ failed' = failed + NFail(E.out)
  /\ authenticated' = E.authed /\ alive' = E.alive /\ mode' = E.mode
  /\ cbs' = E.cbs /\ out' = E.out
  /\ grantedBy' = IF Granted(authenticated, E.authed, E.out)
                    THEN Grant(cfg, E.req, authUser, mode, E.cbs) ELSE grantedBy
  /\ bad' =      S(GrantNeedsApproval', "P_GrantNeedsApproval")
            \cup S(SuccessMeansAuthenticatedStep, "P_SuccessMeansAuthenticated")
            \cup S(ProbeNeverAuthenticatesStep, "P_ProbeNeverAuthenticates")
            \cup S(GrantIsAnnouncedStep, "P_GrantIsAnnounced")
            \cup S(OneUser', "P_OneUser")
            \cup S(SwitchEndsStep, "P_SwitchEnds")
            \cup S(CapRespected', "P_CapRespected")
            \cup S(CapExactStep, "P_CapExact")
            \cup S(NoCheckAfterDeathStep, "P_NoCheckAfterDeath")
            \cup S(Conforms(Model), "C_step")
TNext == l <= Len(T) /\ \E m \in {Handle(cfg, Ctl, E.req)} : TStep(m)      \* (Handle evaluated once)
TSpec == TInit /\ [][TNext]_tvars
Report == /\ (bad # {} => PrintT(<<"VERDICT", tid, l - 1, bad>>))
          /\ (l = Len(T) + 1 => PrintT(<<"DONE", tid>>))
=============================================================================
