-------------------------- MODULE HostKeyGate_Trace --------------------------
(* code -> spec for C17.  Each record is one real connection attempt (netsched: real     *)
(* client on end a, real server Transport with a payload-keeping tap on end b).            *)
(*  kind = "gate": Transport.connect(hostkey=..) or SSHClient.connect(sock=..) with the    *)
(*     configuration `cfg` (same shape as HostKeyGate!cfg; the known_hosts entries are     *)
(*     the structure the driver rendered the files from); badsig: the host-key signature   *)
(*     was corrupted in transit (the key exchange must fail: shown = NoKey).  obs:         *)
(*       shown      the key the client says the server presented (NoKey: no key exchange)  *)
(*       secret     a USERAUTH_REQUEST with a password / signature or an INFO_RESPONSE     *)
(*                  reached the server                                                     *)
(*       authmsgs   number of SERVICE_REQUEST / USERAUTH_REQUEST / INFO_RESPONSE messages  *)
(*                  the server read                                                        *)
(*       raised     connect() raised                                                       *)
(*       asked      the missing-host-key policy was consulted; atpolicy / secretatpolicy:  *)
(*                  authmsgs / secret as the server saw them at that moment                *)
(*       plain      a credential was seen unencrypted on the link (plainauth: any          *)
(*                  authentication-protocol packet was)                                    *)
(*  kind = "life": one auth_* call on a raw Transport at lifecycle point `point`           *)
(*     (phase names of HostKeyGate, plus "closed"); obs as above, observed after the       *)
(*     stalled handshake was allowed to finish.                                            *)
(* The design spec's operators (GuardPasses, Decision, MustRefuse, Unknown, Shown) judge.  *)
EXTENDS HostKeyGate, Json, IOUtils, TLCExt
Batch == JsonDeserialize(IOEnv.TRACE_FILE)
VARIABLES tid, l, bad
tvars == <<tid, l, bad, vars>>
R == Batch[tid]
O == R.obs
CfgOf(r) == [api |-> r.cfg.api, expect |-> r.cfg.expect, sys |-> r.cfg.sys, usr |-> r.cfg.usr,
             policy |-> r.cfg.policy, port |-> r.cfg.port, server |-> Range(r.cfg.server), gss |-> r.cfg.gss, loaded |-> r.cfg.loaded,
             prev |-> [i \in DOMAIN r.cfg.prev |-> [port |-> r.cfg.prev[i].port, server |-> Range(r.cfg.prev[i].server)]]]
TInit == /\ tid \in 1..Len(Batch) /\ l = 1 /\ bad = {}
         /\ cfg = CfgOf(R)
         /\ phase = "new" /\ active = FALSE /\ kexDone = FALSE /\ sigVerified = FALSE /\ outEnc = FALSE
         /\ shown = NoKey /\ armed = NoArm /\ pc = "user" /\ policyAsked = FALSE /\ policyAccepted = FALSE /\ sent = {}
If(c, name) == IF c THEN {name} ELSE {}
GateBad ==
  LET c == cfg
      k == O.shown
      refuse == k = NoKey \/ MustRefuse(c, k)
      dec == IF k = NoKey THEN "nokex" ELSE Decision(c, k)
      accepts == dec = "accept" \/ (dec = "policy" /\ PolicyAccepts(c.policy))
  IN If(refuse /\ O.secret, "P_credential_sent_to_server_that_must_be_refused")
     \cup If(Unknown(c) /\ O.secret /\ ~O.asked, "P_credential_sent_to_unknown_server_without_policy")
     \cup If(O.asked /\ O.secretatpolicy, "P_credential_sent_before_policy_decided")
     \cup If(O.plain, "P_credential_in_plaintext")
     \cup If(O.plainauth /\ ~O.plain, "C_auth_protocol_packet_in_plaintext")
     \cup If(refuse /\ ~O.secret /\ O.authmsgs > 0, "C_auth_traffic_to_server_that_must_be_refused")
     \cup If(O.asked /\ ~O.secretatpolicy /\ O.atpolicy > 0, "C_auth_traffic_before_policy_decided")
     \cup If(k # Shown(c) /\ ~R.badsig, "C_presented_key_differs_from_model")
     \* ("gssfirst": whether the ordinary credentials follow depends on the GSS-API library at hand - no expectation)
     \cup If(~(c.api = "sshclient" /\ GssAuth(c) /\ accepts) /\ dec # "gssfirst" /\ accepts = O.raised, "C_decision_differs_from_model")
     \cup If((dec = "policy") # O.asked, "C_policy_consultation_differs_from_model")
LifeBad ==
  \* GuardPasses is evaluated in the spec state bound from the lifecycle point (primed: the state after this step)
  If(~GuardPasses' /\ O.secret, "P_credential_sent_for_attempt_before_kex_completed")
  \cup If(O.plain, "P_credential_in_plaintext")
  \cup If(O.plainauth /\ ~O.plain, "C_auth_protocol_packet_in_plaintext")
  \cup If(~GuardPasses' /\ ~O.raised, "C_attempt_not_refused")
  \cup If(~GuardPasses' /\ ~O.secret /\ O.authmsgs > 0, "C_auth_traffic_for_refused_attempt")
  \cup If(GuardPasses' /\ R.positive /\ (O.raised \/ ~O.secret), "C_attempt_in_open_session_failed")
TNext == /\ l = 1 /\ l' = 2 /\ tid' = tid
         /\ UNCHANGED <<cfg, sigVerified, outEnc, shown, armed, pc, policyAsked, policyAccepted, sent>>
         /\ IF R.kind = "life"
              THEN /\ phase' = R.point
                   /\ active' = (R.point \notin {"new", "closed"})
                   /\ kexDone' = (R.point \in {"open", "closed"})
                   /\ bad' = LifeBad
              ELSE /\ UNCHANGED <<phase, active, kexDone>>
                   /\ bad' = GateBad
TSpec == TInit /\ [][TNext]_tvars
Report == /\ (bad # {} => PrintT(<<"VERDICT", tid, bad>>))
          /\ (l = 2 => PrintT(<<"DONE", tid>>))
=============================================================================
