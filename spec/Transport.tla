------------------------------ MODULE Transport ------------------------------
(* One endpoint of an established SSH transport at message granularity: the      *)
(* dispatch loop of Transport.run() (paramiko/transport.py), i.e. what happens    *)
(* to each inbound message type in each (role, authentication, channel) state.    *)
(* C12 (unrecognised types -> UNIMPLEMENTED, session continues) and C15           *)
(* (no connection-layer service before authentication) are invariants of it.      *)
(*                                                                                *)
(* Message types are numbers 0..255.  Tables as in the code:                      *)
(*   TransportTable  Transport._handler_table                                     *)
(*   ChannelTable    Transport._channel_handler_table                             *)
(*   AuthTable(r)    AuthHandler._server_handler_table / _client_handler_table    *)
EXTENDS Naturals, Sequences, FiniteSets, TLC

CONSTANTS Role,             \* "client" | "server"
          Named,            \* type numbers that have an entry in MSG_NAMES
          NameLookupTotal,  \* TRUE: the fallback branch copes with unnamed types (repaired); FALSE: MSG_NAMES[ptype] raises
          SeqMod,           \* inbound sequence numbers modulo this (model bound)
          Types,            \* the message types the environment may send (model bound; 0..255 for the full table)
          ChanIds           \* channel numbers the environment may use

AllTypes == 0..255         \* for configs: Types <- AllTypes
SomeTypes == {1, 2, 3, 4, 5, 8, 20, 50, 61, 79, 80, 81, 90, 93, 94, 97, 98, 101, 255}
FewTypes == {3, 8, 50, 80, 94, 101, 255}
MidTypes == {1, 2, 3, 5, 8, 50, 80, 90, 94, 97, 101}
ConnTypes == (80..100) \cup {5, 50}

IGNORE == 2  UNIMPL == 3  DEBUG == 4  DISCONNECT == 1
SERVICE_REQUEST == 5  SERVICE_ACCEPT == 6  EXT_INFO == 7  KEXINIT == 20  NEWKEYS == 21
GLOBAL_REQUEST == 80  REQUEST_SUCCESS == 81  REQUEST_FAILURE == 82
CHANNEL_OPEN == 90  OPEN_SUCCESS == 91  OPEN_FAILURE == 92
HighestUserauth == 79

TransportTable == {EXT_INFO, KEXINIT, NEWKEYS, GLOBAL_REQUEST, REQUEST_SUCCESS, REQUEST_FAILURE,
                   CHANNEL_OPEN, OPEN_SUCCESS, OPEN_FAILURE}
ChannelTable   == 93..100
AuthTable(r)   == IF r = "server" THEN {SERVICE_REQUEST, 50, 61} ELSE {SERVICE_ACCEPT, 51, 52, 53, 60}

ConnCallbacks == {"check_channel_request", "check_global_request", "check_port_forward_request",
                  "cancel_port_forward_request", "check_channel_direct_tcpip_request", "channel_request_cb"}

VARIABLES active,        \* the transport is up
          authed,        \* is_authenticated()
          authHandler,   \* auth_handler is not None
          expected,      \* _expected_packet (set of types; {} = anything)
          strictPending, \* agreed_on_strict_kex /\ ~initial_kex_done
          chans, seen,   \* live channel ids (ChannelMap) / ids ever seen
          inKex,         \* this end has sent a KEXINIT of a re-exchange; the peer's KEXINIT has not arrived yet
          seqIn,         \* sequence number of the next inbound packet
          cb,            \* ServerInterface callbacks invoked so far (names)
          last           \* what the last Recv did (observation record)
vars == <<active, authed, authHandler, expected, strictPending, chans, seen, inKex, seqIn, cb, last>>

NoReply == <<>>
Obs(t, sq, kind, reply, ch) == [t |-> t, seq |-> sq, kind |-> kind, reply |-> reply, chan |-> ch,
                                authedBefore |-> authed]

Init == /\ active = TRUE /\ authed \in BOOLEAN /\ authHandler \in BOOLEAN
        /\ (authed => authHandler)                  \* authentication went through an auth handler
        /\ (Role = "server" => authHandler)         \* a server gets one with the first service request / at start
        /\ expected = {} /\ strictPending = FALSE /\ inKex \in BOOLEAN
        /\ chans \in SUBSET ChanIds /\ seen = chans
        /\ (~authed /\ Role = "server" => chans = {})
        /\ seqIn = 0 /\ cb = {}
        /\ last = Obs(0, 0, "none", NoReply, 0)

Handled(t) == \/ t \in {IGNORE, DEBUG, DISCONNECT}
              \/ t \in TransportTable
              \/ t \in ChannelTable
              \/ (authHandler /\ t \in AuthTable(Role))

\* classification of one run()-loop iteration for inbound type t on channel number ch
Kind(t, ch) ==
  CASE t = IGNORE -> IF strictPending THEN "die_strict" ELSE "skipped"
    [] t = DISCONNECT -> "disconnect"
    [] t = DEBUG -> IF strictPending THEN "die_strict" ELSE "skipped"
    [] expected # {} /\ t \notin expected -> "die_order"
    [] expected # {} /\ t \in expected /\ t \in 30..41 -> "kex"
    [] t \in TransportTable ->
         IF Role = "server" /\ t > HighestUserauth /\ ~authed
           THEN (IF t \in {GLOBAL_REQUEST, CHANNEL_OPEN} THEN "refused" ELSE "refused_empty_reply")
           ELSE "handled"
    [] t \in ChannelTable ->
         IF ch \in chans THEN "chan_handled" ELSE IF ch \in seen THEN "chan_dead_ignored" ELSE "die_unknown_channel"
    [] authHandler /\ t \in AuthTable(Role) -> "auth_handled"
    [] OTHER -> IF t = UNIMPL THEN "unhandled_silent"
                ELSE IF NameLookupTotal \/ t \in Named THEN "unhandled_answered" ELSE "die_keyerror"

Dies(k) == k \in {"die_strict", "disconnect", "die_order", "die_unknown_channel", "die_keyerror", "refused_empty_reply"}

Reply(t, k) == CASE k = "unhandled_answered" -> <<UNIMPL, seqIn>>
                 [] k = "refused" -> IF t = GLOBAL_REQUEST THEN <<REQUEST_FAILURE, 0>> ELSE <<OPEN_FAILURE, 0>>
                 [] OTHER -> NoReply

RecvK(t, ch, k) ==
  /\ active
  /\ LET dummy == 0 IN
     /\ last' = Obs(t, seqIn, k, Reply(t, k), ch)
     /\ active' = ~Dies(k)
     /\ seqIn' = (seqIn + 1) % SeqMod
     /\ expected' = IF expected # {} /\ t \in expected THEN {} ELSE expected
     \* handlers that exist only after authentication (or on a client) may consult the application
     /\ cb' = IF k = "handled" /\ t = GLOBAL_REQUEST /\ Role = "server" THEN cb \cup {"check_global_request"}
              ELSE IF k = "handled" /\ t = CHANNEL_OPEN /\ Role = "server" THEN cb \cup {"check_channel_request"}
              ELSE IF k = "chan_handled" /\ t = 98 /\ Role = "server" THEN cb \cup {"channel_request_cb"}
              ELSE cb
     /\ \E newchan \in BOOLEAN :       \* a handled CHANNEL_OPEN may register a channel (if the application accepts)
          /\ chans' = IF k = "handled" /\ t = CHANNEL_OPEN /\ newchan /\ ch \notin chans THEN chans \cup {ch}
                      ELSE IF k = "chan_handled" /\ t = 97 THEN chans \ {ch} ELSE chans
          /\ seen' = seen \cup chans'
     \* the peer's KEXINIT ends the window in which only our own KEXINIT is out
     /\ inKex' = IF t = KEXINIT THEN FALSE ELSE inKex
     /\ UNCHANGED <<authed, authHandler, strictPending>>

Recv(t, ch) == RecvK(t, ch, Kind(t, ch))
\* mutation used as a sensitivity run: the dispatch loop without _ensure_authed
\* mutation used as a sensitivity run: the fallback branch stays silent while our own KEXINIT is outstanding
RecvQuietInKex(t, ch) == RecvK(t, ch, IF inKex /\ Kind(t, ch) = "unhandled_answered" THEN "unhandled_silent" ELSE Kind(t, ch))
KindNoGate(t, ch) == IF t \in TransportTable THEN "handled" ELSE Kind(t, ch)
RecvNoGate(t, ch) == RecvK(t, ch, KindNoGate(t, ch))

\* the peer authenticates successfully (server side: AuthHandler grants; client side: USERAUTH_SUCCESS)
AuthSucceeds == /\ active /\ ~authed /\ authHandler /\ authed' = TRUE
                /\ UNCHANGED <<active, authHandler, expected, strictPending, chans, seen, inKex, seqIn, cb, last>>

\* this end starts a re-exchange (renegotiate_keys / rekey threshold): KEXINIT goes out, nothing is expected
\* yet; traffic the peer sent before it sees our KEXINIT keeps arriving and is dispatched as usual (C11, C12)
StartRekey == /\ active /\ ~inKex /\ expected = {} /\ inKex' = TRUE
              /\ UNCHANGED <<active, authed, authHandler, expected, strictPending, chans, seen, seqIn, cb, last>>

Next == AuthSucceeds \/ StartRekey \/ \E t \in Types, ch \in ChanIds : Recv(t, ch)
Spec == Init /\ [][Next]_vars
SpecQuietInKex == Init /\ [][AuthSucceeds \/ StartRekey \/ \E t \in Types, ch \in ChanIds : RecvQuietInKex(t, ch)]_vars
\* mutation: the authentication gate is skipped while this end's own KEXINIT is outstanding
KindNoGateInKex(t, ch) == IF inKex /\ t \in TransportTable THEN "handled" ELSE Kind(t, ch)
SpecNoGateInKex == Init /\ [][AuthSucceeds \/ StartRekey \/ \E t \in Types, ch \in ChanIds : RecvK(t, ch, KindNoGateInKex(t, ch))]_vars
SpecNoGate == Init /\ [][AuthSucceeds \/ StartRekey \/ \E t \in Types, ch \in ChanIds : RecvNoGate(t, ch)]_vars
\* every initial state x one inbound message (used with Types <- AllTypes)
OneStepSpec == Init /\ [][last.kind = "none" /\ Next]_vars

(* ---- C12 ---- *)
\* a type with no handler in the current role/state (other than UNIMPLEMENTED itself) is answered with
\* UNIMPLEMENTED carrying that packet's sequence number, and the session continues
UnhandledAnswered ==
  (last.kind \in {"unhandled_answered", "die_keyerror"} \/ (last.kind = "unhandled_silent" /\ last.t # UNIMPL))
     => (last.reply = <<UNIMPL, last.seq>> /\ active)
UnimplementedNeverAnswered == last.t = UNIMPL /\ last.kind # "none" => last.reply = NoReply
C12 == UnhandledAnswered /\ UnimplementedNeverAnswered

(* ---- C15 ---- *)
NoPreAuthService == (Role = "server" /\ ~authed) => (chans = {} /\ cb \cap ConnCallbacks = {})
PreAuthRefused ==
  (Role = "server" /\ ~last.authedBefore /\ last.kind # "none" /\ active) =>
     /\ (last.t = GLOBAL_REQUEST => last.reply = <<REQUEST_FAILURE, 0>>)
     /\ (last.t = CHANNEL_OPEN => last.reply = <<OPEN_FAILURE, 0>>)
C15 == NoPreAuthService /\ PreAuthRefused

\* spec -> code: one case per (state, message) reachable in one step
EmitCase == last.kind # "none" =>
  PrintT(<<"CASE", [authed |-> last.authedBefore, authHandler |-> authHandler, t |-> last.t,
                    chan |-> IF last.t \in ChannelTable THEN last.kind ELSE "n/a", kind |-> last.kind]>>)
=============================================================================
