------------------------- MODULE AuthStrategy_Trace -------------------------
(* code -> spec for C44.  One trace = one call of the real                      *)
(* AuthStrategy.authenticate() on a strategy whose get_sources() yields stubs:   *)
(*   prog   = outcome kind of each stub (a kind of returned value, see Returns, or  *)
(*            an exception class name)                                              *)
(*   events = [src |-> k] for every stub.authenticate() entered, in order         *)
(*   final  = [status |-> "returned" | "raised" | "propagated",                   *)
(*             result |-> entries [src, kind, of] of the AuthResult (identity     *)
(*             look-ups of the source / returned object / exception instance;     *)
(*             kind = "ret" only if the entry holds the very object the source     *)
(*             returned, unchanged)]                                               *)
(* The trace spec replays the recorded calls on the design spec's variables and   *)
(* evaluates the design spec's clause operators; it is total (never blocks).      *)
EXTENDS AuthStrategy, Json, IOUtils, TLCExt
Batch == JsonDeserialize(IOEnv.TRACE_FILE)
VARIABLES tid, l, bad
tvars == <<tid, l, bad, vars>>
T == Batch[tid]
NEv == Len(T.events)

TInit == /\ tid \in 1..Len(Batch) /\ l = 1 /\ bad = {}
         /\ prog = T.prog
         /\ pc = "next" /\ i = 0 /\ succeeded = FALSE
         /\ calls = <<>> /\ result = <<>> /\ status = "running"

\* the code entered source e.src: the spec's NextSource;Attempt pair, taken with the recorded index
TCall == /\ l <= NEv
         /\ LET s == T.events[l].src IN
              /\ calls' = Append(calls, s)
              /\ i' = s
              /\ succeeded' = (s \in 1..Len(prog) /\ Succeeds(prog[s]))
              /\ bad' = bad \cup CallClauses(prog, calls, s)
         /\ pc' = "record" /\ l' = l + 1
         /\ UNCHANGED <<tid, prog, result, status>>

\* authenticate() ended: the spec's Finish, with the recorded status and AuthResult
TFinal == /\ l = NEv + 1
          /\ status' = T.final.status /\ result' = T.final.result
          /\ bad' = bad \cup FinalClauses(prog, calls, T.final.status, T.final.result)
                        \cup (IF T.final.status \in {"returned", "raised"}
                                 /\ [calls |-> calls, status |-> T.final.status, result |-> T.final.result] # Expected(prog)
                              THEN {"C_differs_from_expected"} ELSE {})
          /\ pc' = "done" /\ l' = l + 1
          /\ UNCHANGED <<tid, prog, i, succeeded, calls>>

TNext == TCall \/ TFinal
TSpec == TInit /\ [][TNext]_tvars
Report == l = NEv + 2 => /\ (bad # {} => PrintT(<<"VERDICT", tid, bad>>))
                         /\ PrintT(<<"DONE", tid>>)
=============================================================================
