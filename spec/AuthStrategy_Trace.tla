------------------------- MODULE AuthStrategy_Trace -------------------------
(* code -> spec for C44.  One trace = the successive calls (T.calls, mostly one)   *)
(* of the real AuthStrategy.authenticate() on ONE strategy object whose           *)
(* get_sources() yields that call's stubs.  Per call:                             *)
(*   prog   = outcome kind of each stub (a kind of returned value, see Returns, or  *)
(*            an exception class name)                                              *)
(*   events = [src |-> k] for every stub.authenticate() entered, in order         *)
(*   final  = [status |-> "returned" | "raised" | "propagated",                   *)
(*             result |-> entries [src, kind, of] of the AuthResult (identity     *)
(*             look-ups of the source / returned object / exception instance;     *)
(*             kind = "ret" only if the entry holds the very object the source     *)
(*             returned, unchanged)]                                               *)
(*   earlier_changed = a result handed out by an earlier call of the trace no       *)
(*            longer has the entries it had then (driver's comparison, derived)     *)
(* A verdict element is <<clause, number of the call>>.                             *)
(* The trace spec replays the recorded calls on the design spec's variables and   *)
(* evaluates the design spec's clause operators; it is total (never blocks).      *)
EXTENDS AuthStrategy, Json, IOUtils, TLCExt
Batch == JsonDeserialize(IOEnv.TRACE_FILE)
VARIABLES tid, l, bad
tvars == <<tid, l, bad, vars>>
T == Batch[tid]
NC == Len(T.calls)
R == T.calls[call]          \* the current call: [prog, events, final, earlier_changed]
NEv == Len(R.events)
Tag(S) == {<<c, call>> : c \in S}

TInit == /\ tid \in 1..Len(Batch) /\ l = 1 /\ bad = {}
         /\ prog = T.calls[1].prog
         /\ pc = "next" /\ i = 0 /\ succeeded = FALSE
         /\ calls = <<>> /\ result = <<>> /\ status = "running"
         /\ call = 1 /\ prev = <<>> /\ prevlen = 0

\* the code entered source e.src: the spec's NextSource;Attempt pair, taken with the recorded index
TCall == /\ pc # "done" /\ l <= NEv
         /\ LET s == R.events[l].src IN
              /\ calls' = Append(calls, s)
              /\ i' = s
              /\ succeeded' = (s \in 1..Len(prog) /\ Succeeds(prog[s]))
              /\ bad' = bad \cup Tag(CallClauses(prog, calls, s))
         /\ pc' = "record" /\ l' = l + 1
         /\ UNCHANGED <<tid, prog, result, status, call, prev, prevlen>>

\* authenticate() ended: the spec's Finish, with the recorded status and AuthResult (judged against THIS call's sources)
TFinal == /\ pc # "done" /\ l = NEv + 1
          /\ status' = R.final.status /\ result' = R.final.result
          /\ bad' = bad \cup Tag(FinalClauses(prog, calls, R.final.status, R.final.result)
                        \cup (IF R.final.status \in {"returned", "raised"}
                                 /\ [calls |-> calls, status |-> R.final.status, result |-> R.final.result] # Expected(prog)
                              THEN {"C_differs_from_expected"} ELSE {})
                        \cup (IF R.earlier_changed THEN {"C_earlier_result_changed"} ELSE {}))
          /\ pc' = "done" /\ l' = l + 1
          /\ UNCHANGED <<tid, prog, i, succeeded, calls, call, prev, prevlen>>

\* authenticate() is called again on the same strategy object: the spec's NextCall with the recorded sources
TNextCall == /\ pc = "done" /\ call < NC
             /\ prog' = T.calls[call + 1].prog
             /\ pc' = "next" /\ i' = 0 /\ succeeded' = FALSE /\ calls' = <<>> /\ status' = "running" /\ result' = <<>>
             /\ prev' = result /\ prevlen' = Len(result)
             /\ call' = call + 1 /\ l' = 1
             /\ UNCHANGED <<tid, bad>>

TNext == TCall \/ TFinal \/ TNextCall
TSpec == TInit /\ [][TNext]_tvars
Report == (pc = "done" /\ call = NC) => /\ (bad # {} => PrintT(<<"VERDICT", tid, bad>>))
                                       /\ PrintT(<<"DONE", tid>>)
=============================================================================
